------------------------------- MODULE KRcfg -------------------------------
EXTENDS Keyring
K1 == Key("k1", 16)
K2 == Key("k2", 24)
K3 == Key("k3", 32)
KX == Key("kx", 17)          \* invalid length
KeysK == {K1, K2, K3, KX}
LeanK == {K1, K2, K3}
S(ks, p, less, full) == [keys |-> ks, primary |-> p, less |-> less, full |-> full]
\* NewKeyring calls: nothing; keys + primary (first / not first / not listed); primary only;
\* duplicates; and the failing ones (invalid key, invalid primary, keys without a primary)
News(less) == {S(<<K1, K2>>, K2, less, TRUE), S(<<>>, K1, less, TRUE), S(<<K1, K1, K2>>, K1, less, TRUE),
               S(<<K1, K2, K3>>, K3, less, TRUE)}
Fails == {S(<<K1, KX>>, K1, 0, TRUE), S(<<K1>>, NoKey, 0, TRUE), S(<<>>, KX, 0, TRUE), S(<<KX>>, KX, 0, TRUE)}
\* the model check: full alphabet from every start
StartsM == {S(<<>>, NoKey, 0, TRUE), S(<<K1, K2>>, K1, 0, TRUE), S(<<K2, K3>>, K1, 0, TRUE)} \cup News(0) \cup Fails
\* the generators: lean alphabet to the full depth from the empty ring, full alphabet one
\* operation shorter from the empty ring and two NewKeyring rings, two shorter from the rest
StartsG == {S(<<>>, NoKey, 0, FALSE),
            S(<<>>, NoKey, 1, TRUE), S(<<K1, K2>>, K1, 1, TRUE), S(<<K2, K3>>, K1, 1, TRUE)} \cup News(2) \cup Fails
\* thorough tier: the lean alphabet one operation deeper, the same full-alphabet sequences
StartsG6 == {S(<<>>, NoKey, 0, FALSE),
             S(<<>>, NoKey, 2, TRUE), S(<<K1, K2>>, K1, 2, TRUE), S(<<K2, K3>>, K1, 2, TRUE)} \cup News(3) \cup Fails
\* the model check ignores the history (the generator does not)
KRView == <<keys, start, alive, Len(hist), last>>
=============================================================================
