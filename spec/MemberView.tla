----------------------------- MODULE MemberView -----------------------------
(***************************************************************************)
(* One node's membership view under ARBITRARY claims.                      *)
(*                                                                         *)
(* The observer `Self` holds a record for itself and one for each name in  *)
(* `Peers`.  Every action is one critical section of the implementation    *)
(* (state.go): an alive / suspect / dead message, one push/pull entry, the *)
(* suspicion timer callback (also the un-stopped timer of a suspicion that *)
(* was already cancelled), a reaping pass, and the steps of the local API  *)
(* calls UpdateNode and Leave, which the code performs without holding the *)
(* lock across them.  Claims range over a finite claim space that contains *)
(* every relation the rules distinguish: incarnation below / equal / above,*)
(* same / other allowed / disallowed address, same / other metadata,       *)
(* valid / invalid / short version vectors, sender = observer / subject /  *)
(* third party.                                                            *)
(*                                                                         *)
(* The variable `ev` holds the last step in the exact format of a recorded *)
(* implementation step, so the property predicates of MLProps are shared   *)
(* between this model and the trace specification.                         *)
(***************************************************************************)
EXTENDS MLProps, TLC, Json

CONSTANTS Self,        \* observer's name
          Peers,       \* other subjects
          Fillers,     \* names of further alive members that only pad numNodes / confirm
          MaxInc,      \* claims carry incarnations 0..MaxInc
          AgeCap,      \* ages of dead/left records are tracked up to AgeCap ticks
          Subjects,    \* names that claims are about (subset of {Self} \cup Peers)
          ApiOn,       \* include the local API steps (UpdateNode, Leave)
          Addrs, Metas, Vsns,       \* claim space
          AllowedAddrs,             \* addresses inside the allowlist (when it is on)
          Cfgs,                     \* set of configurations [reclaim, gossipDead, allowOn, aliveDelegate]
          VetoMeta,                 \* the alive delegate rejects claims carrying this metadata
          Dumping                   \* TRUE: print every generated step as JSON (generator configs)

VARIABLES rec, timer, stale, selfInc, leave, nn, cfg,
          pendUpd,     \* UpdateNode: incarnation taken, alive not yet applied (0 = none)
          pendLeave,   \* Leave: 0 none, 1 flag set, 2 incarnation read (in pendLeaveInc)
          pendLeaveInc,
          ghost,       \* member list rebuilt from the events (C07)
          ev           \* the last step, in trace format

core == <<rec, timer, stale, selfInc, leave, nn, cfg, pendUpd, pendLeave, pendLeaveInc, ghost>>
vars == <<core, ev>>

Names == {Self} \cup Peers

\* Time.  Only the AGE of a dead/left record matters (reclaim, reaping), so the
\* model keeps the clock fixed at `now` and lets Tick move the stamps of dead/left
\* records into the past (down to 0 = "AgeCap or more ticks ago").  Stamps of
\* alive/suspect records are never read before they are overwritten and are
\* normalised to `now`.
now == AgeCap
SelfAddr == "A0"
Port == 7946
VOk == <<1, 5, 2, 0, 0, 0>>

FullCfg(c) == [reclaim |-> c.reclaim, gossipDead |-> c.gossipDead, allowOn |-> c.allowOn,
               aliveDelegate |-> c.aliveDelegate, mult |-> 4, maxMult |-> 6, interval |-> 1000]

Allowed(a) == ~cfg.allowOn \/ a \in AllowedAddrs \cup {SelfAddr}

MemberOf(name, r) == [name |-> name, addr |-> r.addr, port |-> r.port, meta |-> r.meta]
\* (state-level on purpose: TLC shares constant-level values between workers and
\* normalises them lazily, which is not thread safe for sets of records)
FillerMembers == {[name |-> f, addr |-> "F", port |-> Port, meta |-> ""] : f \in IF nn >= 0 THEN Fillers ELSE {}}
MembersOf(rr) == {MemberOf(m, rr[m]) : m \in {x \in Names : Listed(rr[x])}} \cup FillerMembers

X(name, claimAddr, claimMeta) ==
  [self |-> Self, now |-> now, rec |-> rec[name], timer |-> timer[name], selfInc |-> selfInc,
   leave |-> leave, nn |-> nn, allowed |-> Allowed(claimAddr),
   veto |-> (claimMeta = VetoMeta), cfg |-> cfg]

InitRec == [state |-> "alive", inc |-> 1, addr |-> SelfAddr, port |-> Port, meta |-> "m0",
            vsn |-> VOk, changed |-> now]

NoEv == [ev |-> "None"]

Init ==
  /\ cfg \in {FullCfg(c) : c \in Cfgs}
  /\ rec = [m \in Names |-> IF m = Self THEN InitRec ELSE NoRec]
  /\ timer = [m \in Names |-> NoTimer]
  /\ stale = [m \in Names |-> FALSE]
  /\ selfInc = 1 /\ leave = FALSE /\ nn = 1 + Cardinality(Fillers)
  /\ pendUpd = 0 /\ pendLeave = 0 /\ pendLeaveInc = 0
  /\ ghost = MembersOf(rec)
  /\ ev = NoEv

-----------------------------------------------------------------------------
CfgOut == [reclaim |-> cfg.reclaim, gossipDead |-> cfg.gossipDead, allowOn |-> cfg.allowOn,
           aliveDelegate |-> cfg.aliveDelegate, mult |-> cfg.mult, maxMult |-> cfg.maxMult,
           interval |-> cfg.interval, fillers |-> Cardinality(Fillers), vetoMeta |-> VetoMeta]

\* the whole view before the step: what a replayer needs to rebuild the situation
World == [rec |-> rec, timer |-> timer, stale |-> stale, selfInc |-> selfInc, leave |-> leave,
          nn |-> nn, now |-> now]

MkEv(op, via, boot, notify, c, x, o, rr) ==
  [ev |-> "NodeOp", n |-> Self, t |-> now, op |-> op, via |-> via, boot |-> boot, notify |-> notify,
   claim |-> c, allowed |-> x.allowed,
   filtered |-> (op = "alive" /\ (BadVsn(c.vsn) \/ (cfg.aliveDelegate /\ (Len(c.vsn) < 6 \/ x.veto)))),
   pre |-> x.rec, post |-> o.rec, tpre |-> x.timer, tpost |-> o.timer,
   incPre |-> x.selfInc, incPost |-> o.selfInc, leave |-> x.leave, nnPre |-> x.nn, nnPost |-> o.nn,
   bcast |-> o.bcast,
   events |-> [i \in DOMAIN o.events |-> [kind |-> o.events[i].kind, name |-> o.events[i].name,
                                           addr |-> o.events[i].addr, port |-> o.events[i].port,
                                           meta |-> o.events[i].meta,
                                           allowed |-> Allowed(o.events[i].addr)]],
   conflict |-> o.conflict, health |-> o.health,
   members |-> MembersOf(rr), postAllowed |-> (IsAbsent(o.rec) \/ Allowed(o.rec.addr)),
   created |-> TRUE, selfState |-> rr[Self].state,
   cfg |-> CfgOut, world |-> World]

Norm(r) == IF Listed(r) THEN [r EXCEPT !.changed = now] ELSE r

\* one execution of aliveNode / suspectNode / deadNode on subject c.node
StepCore(op, via, boot, notify, c) ==
  LET name == c.node
      x    == X(name, c.addr, c.meta)
      o    == Apply(x, op, c, boot, notify)
      rr   == [rec EXCEPT ![name] = Norm(o.rec)]
      cancelled == x.timer.on /\ ~o.timer.on /\ via # "timer"    \* entry deleted, Go timer still armed
  IN /\ rec' = rr
     /\ timer' = [timer EXCEPT ![name] = o.timer]
     /\ stale' = [stale EXCEPT ![name] = @ \/ cancelled]
     /\ selfInc' = o.selfInc /\ nn' = o.nn
     /\ ghost' = ApplyEvents(ghost, o.events, 1)
     /\ ev' = MkEv(op, via, boot, notify, c, x, o, rr)
     /\ UNCHANGED <<leave, cfg>>

Step(op, via, boot, notify, c) ==
  StepCore(op, via, boot, notify, c) /\ UNCHANGED <<pendUpd, pendLeave, pendLeaveInc>>

\* The model never looks at when a timer is due (module Suspicion does): the
\* callback may run at any moment while the entry exists.

Incs == 0..MaxInc
Froms == {Self} \cup Peers \cup Fillers

AliveClaim(name, i, a, m, v) ==
  [node |-> name, inc |-> i, from |-> "", addr |-> a, port |-> Port, meta |-> m, vsn |-> v, kind |-> "alive"]
AccuseClaim(kind, name, i, f) ==
  [node |-> name, inc |-> i, from |-> f, addr |-> "", port |-> 0, meta |-> "", vsn |-> <<>>, kind |-> kind]

AddrsFor(name) == IF name = Self THEN Addrs \cup {SelfAddr} ELSE Addrs

RecvAlive == \E name \in Subjects, i \in Incs, m \in Metas, v \in Vsns : \E a \in AddrsFor(name) :
               Step("alive", "direct", FALSE, FALSE, AliveClaim(name, i, a, m, v))
RecvSuspect == \E name \in Subjects, i \in Incs, f \in Froms :
               Step("suspect", "direct", FALSE, FALSE, AccuseClaim("suspect", name, i, f))
RecvDead == \E name \in Subjects, i \in Incs, f \in Froms :
               Step("dead", "direct", FALSE, FALSE, AccuseClaim("dead", name, i, f))

\* one push/pull entry (mergeState): alive as is, left as a self-signed death, dead and
\* suspect as a suspicion raised by the local node
MergeAlive == \E name \in Subjects, i \in Incs, m \in Metas, v \in Vsns : \E a \in AddrsFor(name) :
               Step("alive", "merge", FALSE, FALSE, AliveClaim(name, i, a, m, v))
MergeOther == \E name \in Subjects, i \in Incs, st \in {"suspect", "dead", "left"} :
               LET mc == MergeClaim(Self, [name |-> name, state |-> st, inc |-> i, addr |-> "", port |-> 0,
                                           meta |-> "", vsn |-> <<>>])
               IN Step(mc.op, "merge", FALSE, FALSE, mc.msg)

\* alive gossip arriving in a UDP packet (handleAlive): the source address and the
\* claimed address are checked against the allowlist before aliveNode is reached
UdpAlive == \E name \in Subjects, i \in Incs, m \in Metas, v \in Vsns, srcOk \in BOOLEAN : \E a \in AddrsFor(name) :
  /\ cfg.allowOn
  /\ IF srcOk /\ Allowed(a)
     THEN Step("alive", "udp", FALSE, FALSE, AliveClaim(name, i, a, m, v))
     ELSE /\ ev' = [ev |-> "UdpAlive", n |-> Self, t |-> now, srcAllowed |-> srcOk, nodeOps |-> 0,
                    claim |-> AliveClaim(name, i, a, m, v), cfg |-> CfgOut, world |-> World]
          /\ UNCHANGED core

\* the suspicion callback of the current timer
TimerFire == \E p \in Names :
  /\ timer[p].on
  /\ Step("dead", "timer", FALSE, FALSE, TimerDeadMsg(Self, p, rec[p]))

\* the callback of a timer whose entry was deleted earlier: it must only act if
\* the record still is the very suspicion it was created for - it never is.
StaleFire == \E p \in Names :
  /\ stale[p]
  /\ stale' = [stale EXCEPT ![p] = FALSE]
  /\ ev' = [ev |-> "StaleFire", n |-> Self, t |-> now, node |-> p, world |-> World, cfg |-> CfgOut]
  /\ UNCHANGED <<rec, timer, selfInc, leave, nn, cfg, pendUpd, pendLeave, pendLeaveInc, ghost>>

Reap ==
  LET gone == {m \in Names \ {Self} : Reaped(rec[m], now, cfg.gossipDead)}
      rr   == [m \in Names |-> IF m \in gone THEN NoRec ELSE rec[m]]
  IN /\ rec' = rr
     /\ nn' = Cardinality({m \in Names : ~IsAbsent(rr[m])}) + Cardinality(Fillers)
     /\ ev' = [ev |-> "Reap", n |-> Self, t |-> now, removed |-> gone, events |-> <<>>,
               members |-> MembersOf(rr), leave |-> leave, created |-> TRUE,
               selfState |-> rr[Self].state, cfg |-> CfgOut, world |-> World]
     /\ UNCHANGED <<timer, stale, selfInc, leave, cfg, pendUpd, pendLeave, pendLeaveInc, ghost>>

Tick == /\ \E m \in Names : DeadOrLeft(rec[m]) /\ rec[m].changed > 0
        /\ rec' = [m \in Names |-> IF DeadOrLeft(rec[m]) /\ rec[m].changed > 0
                                    THEN [rec[m] EXCEPT !.changed = @ - 1] ELSE rec[m]]
        /\ ev' = [ev |-> "Tick", n |-> Self, t |-> now]
        /\ UNCHANGED <<timer, stale, selfInc, leave, nn, cfg, pendUpd, pendLeave, pendLeaveInc, ghost>>

\* UpdateNode: take the next incarnation, then aliveNode(bootstrap) - two steps
UpdTake == /\ ApiOn /\ pendUpd = 0 /\ selfInc <= MaxInc /\ ~IsAbsent(rec[Self])
           /\ selfInc' = selfInc + 1 /\ pendUpd' = selfInc + 1
           /\ ev' = [ev |-> "Api", n |-> Self, t |-> now, call |-> "UpdateNode", step |-> "take",
                     world |-> World, cfg |-> CfgOut]
           /\ UNCHANGED <<rec, timer, stale, leave, nn, cfg, pendLeave, pendLeaveInc, ghost>>
UpdApply == \E m \in Metas \ {VetoMeta} :
           /\ pendUpd > 0
           /\ StepCore("alive", "api", TRUE, TRUE, AliveClaim(Self, pendUpd, SelfAddr, m, VOk))
           /\ pendUpd' = 0
           /\ UNCHANGED <<pendLeave, pendLeaveInc>>

\* Leave: set the flag, read the incarnation, deadNode - three steps
LeaveFlag == /\ ApiOn /\ pendLeave = 0 /\ ~leave /\ leave' = TRUE /\ pendLeave' = 1
             /\ ev' = [ev |-> "Api", n |-> Self, t |-> now, call |-> "Leave", step |-> "flag",
                       world |-> World, cfg |-> CfgOut]
             /\ UNCHANGED <<rec, timer, stale, selfInc, nn, cfg, pendUpd, pendLeaveInc, ghost>>
LeaveRead == /\ pendLeave = 1 /\ ~IsAbsent(rec[Self]) /\ pendLeave' = 2 /\ pendLeaveInc' = rec[Self].inc
             /\ ev' = [ev |-> "Api", n |-> Self, t |-> now, call |-> "Leave", step |-> "read",
                       world |-> World, cfg |-> CfgOut]
             /\ UNCHANGED <<rec, timer, stale, selfInc, leave, nn, cfg, pendUpd, ghost>>
LeaveDead == /\ pendLeave = 2
             /\ StepCore("dead", "api", FALSE, FALSE, AccuseClaim("dead", Self, pendLeaveInc, Self))
             /\ pendLeave' = 3
             /\ UNCHANGED <<pendUpd, pendLeaveInc>>

Next == \/ RecvAlive \/ RecvSuspect \/ RecvDead \/ MergeAlive \/ MergeOther \/ UdpAlive
        \/ TimerFire \/ StaleFire \/ Reap \/ Tick
        \/ UpdTake \/ UpdApply \/ LeaveFlag \/ LeaveRead \/ LeaveDead

Spec == Init /\ [][Next]_vars

-----------------------------------------------------------------------------
Bounded == selfInc <= MaxInc + 2

View == core

\* generator: one JSON line per generated transition - the view before the step
\* and the action, which is all a replayer needs
DumpRec ==
  CASE ev.ev = "NodeOp" /\ ev.via = "udp"
                           -> [kind |-> "udpalive", cfg |-> ev.cfg, world |-> ev.world, srcOk |-> TRUE, claim |-> ev.claim,
                               node |-> ev.claim.node]
    [] ev.ev = "UdpAlive"  -> [kind |-> "udpalive", cfg |-> ev.cfg, world |-> ev.world, srcOk |-> ev.srcAllowed,
                               claim |-> ev.claim, node |-> ev.claim.node]
    [] ev.ev = "NodeOp"    -> [kind |-> "nodeop", cfg |-> ev.cfg, world |-> ev.world, op |-> ev.op, via |-> ev.via,
                               boot |-> ev.boot, notify |-> ev.notify, claim |-> ev.claim, node |-> ev.claim.node]
    [] ev.ev = "Reap"      -> [kind |-> "reap", cfg |-> ev.cfg, world |-> ev.world]
    [] ev.ev = "StaleFire" -> [kind |-> "stalefire", cfg |-> ev.cfg, world |-> ev.world, node |-> ev.node]
Dump == (Dumping /\ ev.ev \in {"NodeOp", "Reap", "StaleFire", "UdpAlive"}) => PrintT(<<"E", ToJson(DumpRec @@ [level |-> TLCGet("level")])>>)

-----------------------------------------------------------------------------
(* Properties on the model: every transition satisfies every step predicate *)
StepOK(e) == \A i \in DOMAIN StepProps : (e.ev \in {"NodeOp", "Reap", "UdpAlive"}) => StepHolds(StepProps[i], e)
P_Step    == [][StepOK(ev')]_vars
\* every transition agrees with the order core that Apalache verifies for unbounded incarnations
P_OrderCore == [][OrderCore(ev')]_vars
P_C07     == [][(ev'.ev \in {"NodeOp", "Reap"}) => (C07_Order(ev', ghost) /\ C07_Log(ev', ghost))]_vars

\* model invariants (conformance aids, never verdicts)
Inv_TimerIffSuspect == \A m \in Names : timer[m].on <=> rec[m].state = "suspect"
Inv_GhostIsMembers  == ghost = MembersOf(rec)
Inv_SelfInc         == (~leave /\ ~IsAbsent(rec[Self])) => rec[Self].inc <= selfInc
Inv_C02_SelfAlive   == (~leave) => rec[Self].state = "alive"
=============================================================================
