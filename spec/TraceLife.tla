------------------------------ MODULE TraceLife ------------------------------
(***************************************************************************)
(* Judge of lifecycle schedules forced onto a real node (one line per      *)
(* schedule, with the result of every call in it).  C20 clauses:           *)
(*   NoPanic     no call panics, except Leave started after Shutdown       *)
(*               returned (documented);                                    *)
(*   Returns     every call returns; Leave / UpdateNode return within their*)
(*               timeout, and never wait for a notification that was never *)
(*               armed (with timeout 0 they would wait forever);           *)
(*   Idempotent  a repeated Shutdown / Leave returns ok and does nothing;  *)
(*   Stops       one awareness-scaled probe interval after Shutdown        *)
(*               returned the node sends nothing and its long-running      *)
(*               goroutines have ended.                                    *)
(***************************************************************************)
EXTENDS Integers, Sequences, TLC, Json, IOUtils

TraceFile == IOEnv.VERIF_TRACE
Trace == ndJsonDeserialize(TraceFile)
VARIABLES l
Report(kind, name, e, i, ok) == IF ok THEN TRUE ELSE PrintT(<<kind, name, l, e.case, i>>)

Slack == 50   \* ms: scheduling quantum allowed on top of a timeout

JudgeCall(e, i) ==
  LET r == e.results[i] IN
  /\ Report("VERDICT", "C20_NoPanic", e, i, r.res = "panic" => (r.what = "Leave" /\ r.afterShutdown))
  /\ Report("VERDICT", "C20_Returns", e, i, r.res # "blocked")
  /\ Report("VERDICT", "C20_Timeout", e, i,
            (r.what \in {"Leave", "UpdateNode"} /\ r.res # "blocked") => r.tookMs - r.parkedMs <= r.timeoutMs + Slack)
  /\ Report("VERDICT", "C20_NeverSignalled", e, i, r.waited => r.signalable)
  /\ Report("VERDICT", "C20_Idempotent", e, i,
            (r.repeat /\ r.what \in {"Shutdown", "Leave"} /\ ~(r.what = "Leave" /\ r.afterShutdown))
               => (r.res = "ok" /\ r.nodeOps = 0))
  \* C08: a Leave that reports success has really recorded (and queued) the departure
  /\ Report("VERDICT", "C08_LeaveFinal", e, i,
            (r.what = "Leave" /\ r.res = "ok" /\ ~r.afterShutdown) => r.selfAfter = "left")
  /\ Report("VERDICT", "C08_LeaveSent", e, i,
            (r.what = "Leave" /\ r.res = "ok" /\ ~r.repeat /\ ~r.afterShutdown /\ r.peerAlive) => r.signalable)
  \* ... and, whenever the node listed another member as alive or suspect (the harness looked, not the node), the
  \* departure had been handed out for a packet at least once before Leave reported success
  /\ Report("VERDICT", "C08_LeaveSentOut", e, i,
            (r.what = "Leave" /\ r.res = "ok" /\ ~r.repeat /\ ~r.afterShutdown /\ r.peerListed /\ r.role = "whole")
               => r.sentBefore)
  /\ PrintT(<<"STAT2", "C20_" \o r.role \o "_" \o r.stage, 1, 1>>)

JudgeL(e) ==
  /\ \A i \in DOMAIN e.results : JudgeCall(e, i)
  /\ Report("VERDICT", "C20_Stops", e, 0, e.lateSends = 0 /\ e.goLeft = 0)
  /\ Report("DRIFT", "stage", e, 0,
            CASE e.final \in {"left-and-reaped", "left"} -> e.selfState = "left"
              [] OTHER                                    -> TRUE)

TInit == l = 1
TStep == l <= Len(Trace) /\ JudgeL(Trace[l]) /\ l' = l + 1
TDone == l = Len(Trace) + 1 /\ PrintT(<<"DONE", Len(Trace)>>) /\ l' = l + 1
TSpec == TInit /\ [][TStep \/ TDone]_l
=============================================================================
