----------------------------- MODULE TraceCluster -----------------------------
(***************************************************************************)
(* Judge of multi-node simulation traces (real Memberlist instances over   *)
(* the simulated network, virtual time).  On top of everything TraceView   *)
(* evaluates on every membership step (C01 C02 C07 C08 C09 C18 predicates  *)
(* and conformance), this module follows the run as a whole:               *)
(*   C03  every live node that lists a crashed member stops listing it     *)
(*        within the configured bound, counted from the crash or from the  *)
(*        last moment it (re)accepted the member as alive;                 *)
(*   C04  in a healthy run (every packet within half the probe timeout, no *)
(*        faults) nobody is suspected or declared dead, no leave event for *)
(*        a member that did not leave, health scores stay at zero;         *)
(*   C05  once faults have stopped and the live nodes' member lists still  *)
(*        connect them, after the settling time every live node lists      *)
(*        exactly the live nodes with their owners' latest metadata.       *)
(***************************************************************************)
EXTENDS TraceView

VARIABLES sim,       \* configuration constants of the run (SimInit line)
          crashT,    \* crashed node -> instant of the crash
          watch,     \* set of <<observer, crashed>>: observer lists the crashed node (or did since)
          since,     \* <<o, c>> -> instant from which o's detection time is counted
          gone,      \* <<o, c>> -> instant at which o last stopped listing c (-1: still listed)
          leavers,   \* nodes that called Leave
          downs,     \* nodes currently crashed
          stop,      \* [t, views, live] at the StopFaults line, or [t |-> -1]
          departed,  \* nodes that left gracefully and then shut down
          heard,     \* set of <<o, x>>: o's record of x is alive or suspect (o lists x)
          pass       \* node -> probe pass bookkeeping [picks: name -> count, stable, elig (eligible peers at the
                     \*         last wrap), full (the pass began with a wrap), missed: name -> passes without a probe]

cbase == <<sim, crashT, watch, since, gone, leavers, downs, stop>>
cvars == <<cbase, pass, departed, heard>>

NoSim == [nodes |-> 0, probeInterval |-> 0, probeTimeout |-> 0, awMax |-> 0, suspMult |-> 0, maxMult |-> 0,
          pushPull |-> 0, gossipDead |-> 0, tcpTimeout |-> 0, maxDelay |-> 0, healthy |-> FALSE, settle |-> 0]
NoStop == [t |-> -1, views |-> <<>>, live |-> {}]

\* ---- bounds -------------------------------------------------------------------
\* two full passes over the member list at the slowest awareness-scaled pace, plus the
\* staggered start of the probe ticker, plus the maximum suspicion timeout, plus the
\* time a packet may be in flight
\* (one division at the end: the code computes in nanoseconds, max = maxMult x min without rounding in between)
MaxSuspicion(s) == (s.maxMult * s.suspMult * NodeScale1000(s.nodes) * s.probeInterval) \div 1000
DetectBound(s)  == (2 * s.nodes + 2) * s.awMax * s.probeInterval + MaxSuspicion(s) + s.maxDelay

ViewNames(v) == {v.members[i].name : i \in DOMAIN v.members}
ViewOf(views, n) == LET idx == {i \in DOMAIN views : views[i].n = n} IN
                    IF idx = {} THEN {} ELSE ViewNames(views[CHOOSE i \in idx : TRUE])
MetaIn(views, n, m) == LET idx == {i \in DOMAIN views : views[i].n = n}
                           v == views[CHOOSE i \in idx : TRUE]
                           jj == {j \in DOMAIN v.members : v.members[j].name = m}
                       IN IF idx = {} \/ jj = {} THEN "?" ELSE v.members[CHOOSE j \in jj : TRUE].meta

\* undirected reachability over the live nodes through their member lists
Linked(views, a, b) == b \in ViewOf(views, a) \/ a \in ViewOf(views, b)
RECURSIVE Reach(_, _, _)
Reach(views, live, S) ==
  LET T == S \cup {b \in live : \E a \in S : Linked(views, a, b)} IN
  IF T = S THEN S ELSE Reach(views, live, T)
Connected(views, live) == live = {} \/ (LET a == CHOOSE x \in live : TRUE IN Reach(views, live, {a}) = live)

\* ---- per line -------------------------------------------------------------------
ListedState(r) == r.state \in {"alive", "suspect"}

CReport(name, e, ok) == IF ok THEN TRUE ELSE PrintT(<<"VERDICT", name, l, e.case, e.g>>)
CVacuous(name, e) == PrintT(<<"VACUOUS", name, l, e.case, e.g>>)

\* ---- the probe schedule (C03: every live peer once per pass while membership is stable, at least once
\* in any two passes otherwise, never the node itself, never a dead peer) --------------------------------
NoPass == [picks |-> << >>, stable |-> TRUE, elig |-> {}, full |-> FALSE, missed |-> << >>, flap |-> {}, pickAt |-> -1, pickOf |-> "", pickInfo |-> ""]
PassOf(n) == IF n \in DOMAIN pass THEN pass[n] ELSE NoPass
Count(f, x) == IF x \in DOMAIN f THEN f[x] ELSE 0
Peers(e) == {m.name : m \in e.members} \ {e.n}

ProbeJudge(e) ==
  /\ (e.ev = "ProbePick") =>
        CReport("C03_NoSelfNoDead", e, e.node # e.n /\ e.info \in {"alive", "suspect"})
  \* every probe ends (its health delta is applied when probeNode returns) within the slowest awareness-scaled
  \* probe interval: the bound of C03 counts probes at that pace
  /\ (e.ev = "Health" /\ PassOf(e.n).pickAt >= 0 /\ sim.nodes > 0) =>
        CReport("C03_ProbeDuration", e, e.t - PassOf(e.n).pickAt <= sim.awMax * sim.probeInterval + sim.maxDelay + 50)
  /\ (e.ev = "Reap") =>
        LET p == PassOf(e.n)
            el == Peers(e) IN
        \* reaping never takes a listed (alive or suspect) member away: only a dead declaration, with
        \* its leave event, may do that
        /\ CReport("C03_ReapKeepsListed", e, {m.name : m \in e.membersPre} \subseteq {m.name : m \in e.members})
        /\ (p.full /\ p.stable /\ p.elig = el) =>
              /\ CReport("C03_Pass", e, \A x \in el : Count(p.picks, x) = 1)
              /\ PrintT(<<"STAT2", "C03_stable_passes", 1, 1>>)
        /\ p.full =>
              CReport("C03_TwoPass", e, \A x \in el \cap p.elig : Count(p.picks, x) = 0 => Count(p.missed, x) = 0)

PassUpdate(e) ==
  LET p == PassOf(e.n)
      put(q) == [x \in DOMAIN pass \cup {e.n} |-> IF x = e.n THEN q ELSE pass[x]] IN
  CASE e.ev = "SimInit" -> pass' = << >>
    [] e.ev = "Init" -> pass' = put(NoPass)
    [] e.ev = "ProbePick" ->
         pass' = put([p EXCEPT !.picks = [x \in DOMAIN p.picks \cup {e.node} |-> Count(p.picks, x) + (IF x = e.node THEN 1 ELSE 0)],
                               !.pickAt = e.t, !.pickOf = e.node, !.pickInfo = e.info])
    [] e.ev = "Health" /\ p.pickAt >= 0 -> pass' = put([p EXCEPT !.pickAt = -1])
    [] e.ev = "Reap" ->
         LET el == Peers(e) IN
         \* a pass without a probe counts against a peer only if the observer listed it during the WHOLE pass
         \* (a peer that was dead when the cursor came by and alive again afterwards was rightly skipped)
         pass' = put([picks |-> << >>, stable |-> TRUE, elig |-> el, full |-> TRUE, flap |-> {}, pickAt |-> p.pickAt, pickOf |-> p.pickOf, pickInfo |-> p.pickInfo,
                      missed |-> [x \in el |-> IF p.full /\ x \in p.elig /\ x \notin p.flap /\ Count(p.picks, x) = 0
                                                THEN Count(p.missed, x) + 1 ELSE 0]])
    [] e.ev = "NodeOp" /\ (IsAbsent(e.pre) # IsAbsent(e.post) \/ Listed(e.pre) # Listed(e.post)) ->
         pass' = put([p EXCEPT !.stable = FALSE, !.flap = @ \cup {e.claim.node}])
    [] OTHER -> UNCHANGED pass

\* C04: predicates of a healthy run
\* A member that left gracefully and shut down is no longer a responsive member: an observer that has
\* not yet recorded its departure may rightly suspect it, and is excused until it has.
Excused(o) == \E x \in departed : <<o, x>> \in heard
C04Judge(e) ==
  (sim.healthy /\ 2 * sim.maxDelay < sim.probeTimeout) =>
    /\ CReport("C04_NoSuspect", e,
               ~(e.ev = "NodeOp" /\ e.op = "suspect" /\ e.post.state = "suspect" /\ e.pre.state # "suspect"
                 /\ e.claim.node \notin departed))
    /\ CReport("C04_NoDeath", e,
               ~(e.ev = "NodeOp" /\ e.op = "dead" /\ e.claim.from # e.claim.node /\ e.post # e.pre
                 /\ e.claim.node \notin departed))
    /\ CReport("C04_NoRefute", e, ~(e.ev = "NodeOp" /\ e.incPost > e.incPre /\ ~e.boot /\ e.health > 0))
    /\ CReport("C04_NoLeaveEvent", e,
               ~(e.ev \in {"NodeOp", "Reap"} /\ \E i \in DOMAIN e.events :
                    e.events[i].kind = "leave" /\ e.events[i].name \notin leavers))
    \* (an INCREASE of the score: a score left over from an excused increase may take several successful
    \* probes to come down again;
    \* and a probe of a departed member that began while the prober still held it alive or suspect ends as a failed
    \* probe even if the news of the departure arrives while it is under way)
    /\ CReport("C04_Healthy", e, ~(e.ev = "Health" /\ e.incPost > e.incPre /\ ~Excused(e.n)
                                   /\ ~(PassOf(e.n).pickOf \in departed /\ PassOf(e.n).pickInfo \in {"alive", "suspect"})))

\* C03 / C05 at the end of the run
EndJudge(e) ==
  LET live == SetOf(e.names)
      judged == {p \in watch : p[1] \in live /\ p[2] \in DOMAIN crashT /\ p[2] \in downs
                                /\ e.t - Max2(crashT[p[2]], since[p]) > DetectBound(sim)} IN
  /\ PrintT(<<"STAT2", "C03_pairs", Cardinality(judged), Cardinality(watch)>>)
  /\ PrintT(<<"STAT2", "C04_healthy_run", IF sim.healthy /\ 2 * sim.maxDelay < sim.probeTimeout THEN 1 ELSE 0, 1>>)
  /\ PrintT(<<"STAT2", "C05_judged", IF stop.t >= 0 /\ Connected(stop.views, stop.live) /\ e.t - stop.t >= sim.settle
                                          /\ stop.live = live THEN 1 ELSE 0, 1>>)
  /\ \A p \in watch :
       LET o == p[1]
           c == p[2] IN
       (o \in live /\ c \in DOMAIN crashT /\ c \in downs) =>
         IF e.t - Max2(crashT[c], since[p]) <= DetectBound(sim)
         THEN TRUE                                         \* the run ended before the bound: nothing to say
         ELSE /\ CReport("C03_Removed", e, c \notin ViewOf(e.views, o) /\ gone[p] >= 0)
              /\ CReport("C03_Bound", e, gone[p] < 0 \/ gone[p] - Max2(crashT[c], since[p]) <= DetectBound(sim))
  /\ IF stop.t < 0 THEN TRUE
     ELSE IF ~Connected(stop.views, stop.live) THEN CVacuous("C05_not_connected", e)
     ELSE IF e.t - stop.t < sim.settle \/ stop.live # live THEN CVacuous("C05_too_short", e)
     ELSE /\ CReport("C05_Members", e, \A n \in live : ViewOf(e.views, n) = live)
          /\ CReport("C05_Meta", e, \A n \in live : \A mm \in e.members :
                        (mm.name \in ViewOf(e.views, n)) => MetaIn(e.views, n, mm.name) = mm.meta)

\* Conformance of the dissemination choices with the Cluster model (GossipTargets, the push/pull partner):
\* gossip goes to members held alive or suspect and to the recently dead, never to the node itself, to
\* members that left or to the long dead; the anti-entropy partner is a member held alive.
CDrift(name, e, ok) == IF ok THEN TRUE ELSE PrintT(<<"DRIFT", name, l, e.case, e.g>>)
PickJudge(e) ==
  /\ (e.ev = "GossipPick") =>
        /\ CDrift("gossip-target", e, e.node # e.n /\ (e.info \in {"alive", "suspect"}
                                                       \/ (e.info = "dead" /\ e.age <= e.cfg.gossipDead)))
        /\ (IF e.info = "dead" THEN PrintT(<<"STAT2", "gossip_to_the_dead", 1, 1>>) ELSE TRUE)
  /\ (e.ev = "PushPullPick") =>
        /\ CDrift("pushpull-partner", e, e.node # e.n /\ e.info = "alive")
        /\ PrintT(<<"STAT2", "pushpull_picks", 1, 1>>)

\* C15 in the simulations: with a key configured (outgoing verification is on by default) every buffer a
\* node hands to the network opens under the key with the label as associated data, apart from the
\* cleartext label header of a stream.  The harness opens them with the standard library's AES-GCM and
\* reports the ones that do not open.
SealJudge(e) ==
  /\ (e.ev = "Unsealed") => CReport("C15_SimSealed", e, FALSE)
  /\ (e.ev = "SealStat") => /\ PrintT(<<"STAT2", "C15_sim_buffers_opened", e.nodeOps, e.nodeOps + e.nnPost>>)
                            /\ PrintT(<<"STAT2", "C15_sim_label_headers", e.nnPre, e.nnPre>>)

\* C03: the bound rests on the configured maximum suspicion timeout: no suspicion timer is ever armed
\* with a longer one (whatever the observer's health)
SuspJudge(e) ==
  (e.ev = "NodeOp" /\ e.op = "suspect" /\ e.tpost.on /\ ~e.tpre.on /\ sim.nodes > 0) =>
     CReport("C03_SuspicionMax", e, e.tpost.max <= MaxSuspicion(sim) /\ e.tpost.min <= e.tpost.max)

CJudge(e) ==
  /\ SuspJudge(e)
  /\ PickJudge(e)
  /\ SealJudge(e)
  /\ C04Judge(e)
  /\ ProbeJudge(e)
  /\ (e.ev = "End") => EndJudge(e)

\* ---- state update -------------------------------------------------------------
CUpdate(e) ==
  CASE e.ev = "SimInit" ->
         /\ sim' = e.sim /\ crashT' = << >> /\ watch' = {} /\ since' = << >> /\ gone' = << >>
         /\ leavers' = {} /\ downs' = {} /\ stop' = NoStop
    [] e.ev = "Init" ->
         /\ sim' = e.sim
         /\ UNCHANGED <<crashT, watch, since, gone, leavers, downs, stop>>
    [] e.ev = "Crash" ->
         LET c == e.node
             obs == SetOf(e.names)
             ps == {<<o, c>> : o \in obs} IN
         /\ crashT' = [x \in DOMAIN crashT \cup {c} |-> IF x = c THEN e.t ELSE crashT[x]]
         /\ downs' = downs \cup {c}
         \* pairs in which the crashed node was the observer are dropped
         /\ watch' = {p \in watch : p[1] # c} \cup ps
         /\ since' = [p \in DOMAIN since \cup ps |-> IF p \in ps THEN e.t ELSE since[p]]
         /\ gone' = [p \in DOMAIN gone \cup ps |-> IF p \in ps THEN -1 ELSE gone[p]]
         /\ UNCHANGED <<sim, leavers, stop>>
    [] e.ev = "Restart" ->
         /\ downs' = downs \ {e.node}
         /\ watch' = {p \in watch : p[2] # e.node /\ p[1] # e.node}
         /\ UNCHANGED <<sim, crashT, since, gone, leavers, stop>>
    [] e.ev = "LeaveCall" ->
         /\ leavers' = leavers \cup {e.node}
         /\ UNCHANGED <<sim, crashT, watch, since, gone, downs, stop>>
    [] e.ev = "StopFaults" ->
         /\ stop' = [t |-> e.t, views |-> e.views, live |-> SetOf(e.names)]
         /\ UNCHANGED <<sim, crashT, watch, since, gone, leavers, downs>>
    [] e.ev = "NodeOp" /\ e.claim.node \in downs /\ e.claim.node # e.n ->
         LET p == <<e.n, e.claim.node>> IN
         IF ListedState(e.post) /\ (~ListedState(e.pre) \/ (e.op = "alive" /\ e.post # e.pre))
         THEN \* the observer (re)accepted the crashed member as alive: detection restarts
              /\ watch' = watch \cup {p}
              /\ since' = [q \in DOMAIN since \cup {p} |-> IF q = p THEN e.t ELSE since[q]]
              /\ gone' = [q \in DOMAIN gone \cup {p} |-> IF q = p THEN -1 ELSE gone[q]]
              /\ UNCHANGED <<sim, crashT, leavers, downs, stop>>
         ELSE IF ListedState(e.pre) /\ ~ListedState(e.post) /\ p \in watch
         THEN /\ gone' = [gone EXCEPT ![p] = e.t]
              /\ UNCHANGED <<sim, crashT, watch, since, leavers, downs, stop>>
         ELSE UNCHANGED cbase
    [] OTHER -> UNCHANGED cbase

HeardUpdate(e) ==
  CASE e.ev = "SimInit" -> departed' = {} /\ heard' = {}
    [] e.ev = "Depart" -> departed' = departed \cup {e.node} /\ UNCHANGED heard
    [] e.ev = "Restart" -> departed' = departed \ {e.node} /\ UNCHANGED heard
    [] e.ev = "NodeOp" /\ Listed(e.post) -> heard' = heard \cup {<<e.n, e.claim.node>>} /\ UNCHANGED departed
    [] e.ev = "NodeOp" /\ ~Listed(e.post) -> heard' = heard \ {<<e.n, e.claim.node>>} /\ UNCHANGED departed
    [] OTHER -> UNCHANGED <<departed, heard>>

CInit == TInit /\ departed = {} /\ heard = {} /\ sim = NoSim /\ crashT = << >> /\ watch = {} /\ since = << >> /\ gone = << >>
         /\ leavers = {} /\ downs = {} /\ stop = NoStop /\ pass = << >>

CStep == /\ l <= Len(Trace)
         /\ CJudge(Norm(Trace[l]))
         /\ TStep
         /\ CUpdate(Norm(Trace[l]))
         /\ PassUpdate(Norm(Trace[l]))
         /\ HeardUpdate(Norm(Trace[l]))

CDone == TDone /\ UNCHANGED cvars

CSpec == CInit /\ [][CStep \/ CDone]_<<tvars, cvars>>
=============================================================================
