-------------------------------- MODULE Conc --------------------------------
(***************************************************************************)
(* The locking discipline of a node: which shared objects every public     *)
(* call and every protocol activity touches, in which mode, and under      *)
(* which lock (memberlist.go, state.go, net.go, keyring.go, queue.go,      *)
(* awareness.go).  Transcribed from the code:                              *)
(*                                                                         *)
(*   nodes    m.nodes / m.nodeMap / m.nodeTimers         nodeLock          *)
(*   record   the fields of one nodeState (Addr, Meta,   nodeLock          *)
(*            State, Incarnation, versions)                                *)
(*   counter  incarnation, numNodes, sequenceNum,        atomics           *)
(*            leave, shutdown, pushPullReq                                 *)
(*   acks     m.ackHandlers                              ackLock           *)
(*   queue    TransmitLimitedQueue (btree, index, idGen) q.mu              *)
(*   health   awareness.score                            awareness lock    *)
(*   keys     Keyring.keys (the list; the key bytes are  k.l               *)
(*            never written after installation)                            *)
(*   ticker   m.tickers, m.probeIndex                    tickerLock / only *)
(*            the probe goroutine                                          *)
(*   advert   advertiseAddr / advertisePort              advertiseLock     *)
(*                                                                         *)
(* An access is [obj, mode, lock, lmode]: mode "r" | "w"; lock is the lock *)
(* held, "atomic" for an atomic operation, "owned" for state confined to   *)
(* one goroutine, "snapshot" for reads of a value that is never written    *)
(* after it was published (a key list returned by GetKeys, key bytes, the  *)
(* node copies returned by Members / LocalNode).                           *)
(*                                                                         *)
(* C20 / C17 (no call races with the protocol or with another call) on the *)
(* model: every two accesses of different operations to the same object,   *)
(* one of them a write, are ordered by a common lock the writer holds      *)
(* exclusively (Disciplined).  TLC checks it for every pair and prints     *)
(* every pair of operations that share an object with a write: these are   *)
(* executed concurrently on a real node under the Go race detector, and    *)
(* TraceConc judges what the detector reported.                            *)
(***************************************************************************)
EXTENDS Integers, Sequences, FiniteSets, TLC, Json

A(o, m, l, lm) == [obj |-> o, mode |-> m, lock |-> l, lmode |-> lm]

\* ---- public calls ---------------------------------------------------------------------
\* "MembersRead" / "LocalNodeRead" are the calls followed by what every caller does with the result: reading the
\* fields of the returned nodes (the documentation only forbids modifying them).  Since the repair of F14 the
\* nodes handed out are copies made under the read lock ("nodecopy"); before, they were the records themselves
\* and the caller's reads were ordered with nothing
Foot ==
  [ Members      |-> {A("nodes", "r", "nodeLock", "r"), A("record", "r", "nodeLock", "r")},
    MembersRead  |-> {A("nodes", "r", "nodeLock", "r"), A("record", "r", "nodeLock", "r"), A("nodecopy", "r", "snapshot", "-")},
    NumMembers   |-> {A("nodes", "r", "nodeLock", "r"), A("record", "r", "nodeLock", "r")},
    LocalNode    |-> {A("nodes", "r", "nodeLock", "r"), A("record", "r", "nodeLock", "r")},
    LocalNodeRead |-> {A("nodes", "r", "nodeLock", "r"), A("record", "r", "nodeLock", "r"), A("nodecopy", "r", "snapshot", "-")},
    UpdateNode   |-> {A("nodes", "r", "nodeLock", "r"), A("record", "r", "nodeLock", "r"), A("counter", "w", "atomic", "-"),
                      A("nodes", "w", "nodeLock", "w"), A("record", "w", "nodeLock", "w"), A("queue", "w", "q.mu", "w")},
    Join         |-> {A("nodes", "w", "nodeLock", "w"), A("record", "w", "nodeLock", "w"), A("nodes", "r", "nodeLock", "r"),
                      A("record", "r", "nodeLock", "r"), A("queue", "w", "q.mu", "w"), A("counter", "w", "atomic", "-"),
                      A("keys", "r", "k.l", "r")},
    Leave        |-> {A("counter", "w", "atomic", "-"), A("nodes", "w", "nodeLock", "w"), A("record", "w", "nodeLock", "w"),
                      A("queue", "w", "q.mu", "w")},
    Shutdown     |-> {A("counter", "w", "atomic", "-"), A("ticker", "w", "tickerLock", "w")},
    GetHealthScore |-> {A("health", "r", "awareness", "r")},
    SendBestEffort |-> {A("keys", "r", "k.l", "r"), A("queue", "w", "q.mu", "w"), A("counter", "r", "atomic", "-")},
    SendReliable |-> {A("keys", "r", "k.l", "r"), A("counter", "r", "atomic", "-")},
    Ping         |-> {A("counter", "w", "atomic", "-"), A("acks", "w", "ackLock", "w"), A("keys", "r", "k.l", "r"),
                      A("queue", "w", "q.mu", "w")},
    ProtocolVersion |-> {},
    \* keyring
    GetKeys      |-> {A("keys", "r", "k.l", "r")},
    GetKeysRead  |-> {A("keys", "r", "k.l", "r"), A("keylist", "r", "snapshot", "-")},
    GetPrimaryKey |-> {A("keys", "r", "k.l", "r")},
    AddKey       |-> {A("keys", "w", "k.l", "w")},
    UseKey       |-> {A("keys", "w", "k.l", "w")},
    RemoveKey    |-> {A("keys", "w", "k.l", "w")},
    \* ---- protocol activities (background goroutines) ---------------------------------
    \* a peer changes its metadata: alive message -> aliveNode updates the record in place
    BgPeerUpdate |-> {A("nodes", "w", "nodeLock", "w"), A("record", "w", "nodeLock", "w"), A("queue", "w", "q.mu", "w"),
                      A("keys", "r", "k.l", "r"), A("keylist", "r", "snapshot", "-")},
    \* a peer accuses the node: suspectNode -> refute (own record, incarnation, broadcast, health)
    BgAccuse     |-> {A("nodes", "r", "nodeLock", "w"), A("record", "w", "nodeLock", "w"), A("counter", "w", "atomic", "-"),
                      A("queue", "w", "q.mu", "w"), A("health", "w", "awareness", "w"), A("keys", "r", "k.l", "r")},
    \* a peer stops answering and comes back: probe failure, suspicion timer, dead, reap, alive again
    BgFlap       |-> {A("nodes", "w", "nodeLock", "w"), A("record", "w", "nodeLock", "w"), A("acks", "w", "ackLock", "w"),
                      A("health", "w", "awareness", "w"), A("queue", "w", "q.mu", "w"), A("ticker", "w", "owned", "-"),
                      A("counter", "w", "atomic", "-"), A("keys", "r", "k.l", "r")},
    \* steady state: probe / gossip / push-pull tickers, inbound pings and user messages
    BgSteady     |-> {A("nodes", "r", "nodeLock", "r"), A("record", "r", "nodeLock", "r"), A("acks", "w", "ackLock", "w"),
                      A("queue", "w", "q.mu", "w"), A("health", "w", "awareness", "w"), A("counter", "w", "atomic", "-"),
                      A("keys", "r", "k.l", "r"), A("keylist", "r", "snapshot", "-"), A("ticker", "w", "owned", "-")} ]

Ops == DOMAIN Foot
Calls == {"Members", "MembersRead", "NumMembers", "LocalNode", "LocalNodeRead", "UpdateNode", "Join", "Leave", "Shutdown",
          "GetHealthScore", "SendBestEffort", "SendReliable", "Ping", "ProtocolVersion"}
KeyCalls == {"GetKeys", "GetKeysRead", "GetPrimaryKey", "AddKey", "UseKey", "RemoveKey"}
Background == {"BgPeerUpdate", "BgAccuse", "BgFlap", "BgSteady"}

\* two accesses (of different operations) conflict when they touch the same object and one writes
Conflict(x, y) == x.obj = y.obj /\ (x.mode = "w" \/ y.mode = "w")

\* ... and are ordered when both are atomic operations, or both hold the same lock, the writer(s) exclusively
Ordered(x, y) ==
  \/ x.lock = "atomic" /\ y.lock = "atomic"
  \/ /\ x.lock = y.lock /\ x.lock \notin {"none", "snapshot", "owned", "atomic"}
     /\ (x.mode = "w" => x.lmode = "w") /\ (y.mode = "w" => y.lmode = "w")
     /\ (x.lmode = "w" \/ y.lmode = "w")
  \/ {x.lock, y.lock} = {"owned", "tickerLock"}      \* the probe cursor belongs to the probe goroutine; Shutdown only stops the tickers

RacyPairs(a, b) == {<<x, y>> \in Foot[a] \X Foot[b] : Conflict(x, y) /\ ~Ordered(x, y)}
Shares(a, b) == \E x \in Foot[a], y \in Foot[b] : Conflict(x, y)

\* ---- lock order ------------------------------------------------------------------------
\* Nested acquisitions <<outer, inner>> as the code makes them (an operation that takes `inner` while it holds `outer`):
\*   aliveNode / suspectNode / deadNode / refute queue their broadcast under the node lock  nodeLock -> q.mu
\*   refute and the suspicion paths adjust the health score under the node lock              nodeLock -> awareness
\*   Leave holds its own lock across deadNode and the wait                                  leaveLock -> nodeLock (-> q.mu)
\*   Shutdown holds its own lock while it stops the tickers                                 shutdownLock -> tickerLock
\*   probeNode registers its ack handler, and the handlers' timers fire, under ackLock only (leaf)
\*   getBroadcasts asks for the cluster size with an atomic load while it holds q.mu         (q.mu is a leaf)
\*   the keyring lock and the advertise-address lock are leaves, taken without any other lock held
\* A deadlock needs a cycle in this relation; TLC checks there is none (the transitive closure is irreflexive).
Locks == {"nodeLock", "q.mu", "awareness", "ackLock", "leaveLock", "shutdownLock", "tickerLock", "k.l", "advertiseLock"}
Nested == {<<"nodeLock", "q.mu">>, <<"nodeLock", "awareness">>, <<"leaveLock", "nodeLock">>, <<"leaveLock", "q.mu">>,
           <<"shutdownLock", "tickerLock">>}
RECURSIVE Reach(_, _)
Reach(from, seen) ==
  LET next == {e[2] : e \in {x \in Nested : x[1] \in from}} \ seen IN
  IF next = {} THEN seen ELSE Reach(next, seen \cup next)
LockOrderAcyclic == \A k \in Locks : k \notin Reach({k}, {})

\* ---- the model: pick a pair, look at it -------------------------------------------------
VARIABLES pa, pb
cvars == <<pa, pb>>
CInit == pa = "" /\ pb = ""
Pick(a, b) == pa' = a /\ pb' = b
Pairs ==
  {<<a, b>> \in Calls \X (Calls \cup Background) : Shares(a, b)} \cup
  {<<a, b>> \in KeyCalls \X (KeyCalls \cup {"BgSteady", "BgPeerUpdate", "SendBestEffort", "SendReliable"}) : Shares(a, b)}
CNext == \E p \in Pairs : Pick(p[1], p[2])
CSpec == CInit /\ [][CNext]_cvars

Disciplined == pa # "" => RacyPairs(pa, pb) = {}

CDump == pa # "" => PrintT(<<"E", ToJson([a |-> pa, b |-> pb,
                                          objs |-> {x.obj : x \in {z \in Foot[pa] : \E y \in Foot[pb] : Conflict(z, y)}},
                                          expectRace |-> (RacyPairs(pa, pb) # {})])>>)
=============================================================================
