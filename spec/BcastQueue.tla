----------------------------- MODULE BcastQueue -----------------------------
(***************************************************************************)
(* Bounded model of the transmit-limited queue: every operation sequence   *)
(* up to MaxOps over a small alphabet, stepped on the reference semantics  *)
(* of module BQRef.  TLC checks the C10 clauses on the reference and, in   *)
(* the generator configurations, prints every sequence for replay on the   *)
(* real queue.                                                             *)
(***************************************************************************)
EXTENDS BQRef

CONSTANTS Pool,      \* broadcast descriptors: set of [uid, kind, name, len]
          Gets,      \* set of [overhead, limit, n]
          Prunes,    \* set of k
          Mults,     \* RetransmitMult values
          MaxOps,
          DumpAt     \* print histories of this length (0 = never)

VARIABLES items, clock, fin, everQ, mult, hist, last

qvars == <<items, clock, fin, everQ, mult, hist, last>>

QInit == /\ items = {} /\ clock = 0 /\ fin = [u \in {b.uid : b \in Pool} |-> 0] /\ everQ = {}
         /\ mult \in Mults /\ hist = <<>> /\ last = [op |-> "none"]

Bump(f, uids) == [u \in DOMAIN f |-> IF u \in uids THEN f[u] + 1 ELSE f[u]]

DoQueue(b) ==
  /\ b.uid \notin everQ
  /\ LET v == Victims(items, b) IN
       /\ items' = (items \ v) \cup {[uid |-> b.uid, kind |-> b.kind, name |-> b.name, len |-> b.len,
                                      tr |-> 0, stamp |-> clock + 1]}
       /\ fin' = Bump(fin, {i.uid : i \in v})
       /\ last' = [op |-> "Q", done |-> {i.uid : i \in v}, why |-> "superseded"]
  /\ clock' = clock + 1 /\ everQ' = everQ \cup {b.uid}
  /\ hist' = Append(hist, [op |-> "Q", uid |-> b.uid, kind |-> b.kind, name |-> b.name, len |-> b.len])
  /\ UNCHANGED mult

DoGet(g) ==
  LET r == GetRef(items, g.overhead, g.limit, mult, g.n) IN
  /\ items' = r.items
  /\ fin' = Bump(fin, SeqToSet(r.done))
  /\ last' = [op |-> "G", done |-> SeqToSet(r.done), why |-> "limit", picked |-> r.picked, g |-> g]
  /\ hist' = Append(hist, [op |-> "G", overhead |-> g.overhead, limit |-> g.limit, n |-> g.n])
  /\ UNCHANGED <<clock, everQ, mult>>

DoPrune(k) ==
  LET keep == PruneRef(items, k) IN
  /\ items' = keep
  /\ fin' = Bump(fin, {i.uid : i \in items \ keep})
  /\ last' = [op |-> "P", done |-> {i.uid : i \in items \ keep}, why |-> "pruned"]
  /\ hist' = Append(hist, [op |-> "P", k |-> k])
  /\ UNCHANGED <<clock, everQ, mult>>

DoReset ==
  /\ items' = {}
  /\ fin' = Bump(fin, {i.uid : i \in items})
  /\ last' = [op |-> "R", done |-> {i.uid : i \in items}, why |-> "reset"]
  /\ hist' = Append(hist, [op |-> "R"])
  /\ UNCHANGED <<clock, everQ, mult>>

QNext == /\ Len(hist) < MaxOps
         /\ \/ \E b \in Pool : DoQueue(b)
            \/ \E g \in Gets : DoGet(g)
            \/ \E k \in Prunes : DoPrune(k)
            \/ DoReset

QSpec == QInit /\ [][QNext]_qvars

\* the C10 clauses on the reference itself
C10_NoLoss     == \A u \in everQ : (\E i \in items : i.uid = u) \/ fin[u] = 1
C10_Once       == \A u \in DOMAIN fin : fin[u] <= 1 /\ (fin[u] = 1 => ~\E i \in items : i.uid = u)
C10_OnePerName == \A i, j \in items : (i.kind = "named" /\ j.kind = "named" /\ i.name # "" /\ i.name = j.name) => i = j
C10_Budget     == last.op = "G" =>
                    LET p == last.picked IN
                    (Len(p) > 0) => (LET sum[i \in 0..Len(p)] == IF i = 0 THEN 0 ELSE sum[i - 1] + p[i].len + last.g.overhead
                                     IN sum[Len(p)] <= last.g.limit)
C10_Bounded    == \A i \in items : i.tr >= 0
C10_OnlyWhen   == [][ \A u \in DOMAIN fin : fin'[u] > fin[u] => u \in last'.done ]_qvars

QDump == (DumpAt > 0 /\ Len(hist) = DumpAt) => PrintT(<<"E", ToJson([mult |-> mult, ops |-> hist])>>)
=============================================================================
