------------------------------ MODULE Keyring ------------------------------
(***************************************************************************)
(* Bounded model of the keyring: every sequence of AddKey / UseKey /       *)
(* RemoveKey / GetKeys / GetPrimaryKey calls up to MaxOps over a small key *)
(* alphabet (valid keys of the three lengths, an invalid-length key;       *)
(* duplicate, absent and primary arguments arise by themselves), started   *)
(* from every NewKeyring call of Starts, stepped on the reference          *)
(* semantics of module KRRef.  TLC checks the C17 clauses on the reference *)
(* and, in the generator configurations, prints every sequence for replay  *)
(* on the real Keyring.                                                    *)
(*                                                                         *)
(* A start is [keys, primary, less, full]: the arguments of NewKeyring,    *)
(* how many operations fewer than MaxOps its sequences have, and whether   *)
(* the full alphabet (every key for every operation, both reads) or the    *)
(* lean one (Use/Remove over LeanKeys, GetKeys only) is used -- this is    *)
(* what keeps the number of generated sequences within a budget.           *)
(***************************************************************************)
EXTENDS KRRef

CONSTANTS Keys,      \* key alphabet: set of [id, len]
          LeanKeys,  \* arguments of Use/Remove for the lean starts
          Starts,    \* set of [keys, primary, less, full]
          MaxOps,
          DumpAt     \* print histories of this length (0 = never)

VARIABLES keys,      \* the ring: sequence of keys, index 1 = primary
          start,     \* the NewKeyring call this sequence began with
          alive,     \* NewKeyring succeeded (otherwise there is no ring)
          hist,      \* the calls so far
          last       \* [op, key, res] of the latest call

kvars == <<keys, start, alive, hist, last>>

Call(o, k) == [op |-> o, key |-> k]
Ops(s) == IF s.full
          THEN {Call(o, k) : o \in {"A", "U", "R"}, k \in Keys} \cup {Call("G", NoKey), Call("P", NoKey)}
          ELSE {Call("A", k) : k \in Keys} \cup {Call(o, k) : o \in {"U", "R"}, k \in LeanKeys}
               \cup {Call("G", NoKey)}

KInit == /\ start \in Starts
         /\ LET n == NewRef(start.keys, start.primary) IN
              /\ keys = n.keys
              /\ alive = (n.res = "ok")
              /\ last = [op |-> "N", key |-> start.primary, res |-> n.res]
         /\ hist = <<>>

Do(c) ==
  LET r == ApplyRef(c.op, keys, c.key) IN
  /\ keys' = r.keys
  /\ last' = [op |-> c.op, key |-> c.key, res |-> r.res]
  /\ hist' = Append(hist, [op |-> c.op, key |-> c.key.id])
  /\ UNCHANGED <<start, alive>>

KNext == /\ alive
         /\ Len(hist) < MaxOps - start.less
         /\ \E c \in Ops(start) : Do(c)

KSpec == KInit /\ [][KNext]_kvars

\* ---- the C17 clauses on the reference itself
C17_Primary == keys # <<>> => (keys[1] = PrimaryRef(keys) /\ KNoDups(keys) /\ \A i \in DOMAIN keys : ValidLen(keys[i]))
C17_NewFails == ~alive => keys = <<>>
C17_Remove  == [][ (last'.op = "R" /\ keys # <<>> /\ last'.key = keys[1])
                     => (keys' = keys /\ last'.res = "error") ]_kvars
C17_Use     == [][ last'.op = "U" =>
                     LET k == last'.key IN
                     \/ (k \in KRange(keys) /\ keys' # <<>> /\ keys'[1] = k /\ KRange(keys') = KRange(keys))
                     \/ (k \notin KRange(keys) /\ keys' = keys /\ last'.res = "error") ]_kvars
\* never removes the primary; only Use (or the first Add) changes it; only Add installs
C17_KeepsPrimary == [][ keys # <<>> => (keys' # <<>> /\ keys[1] \in KRange(keys')
                                         /\ (keys'[1] # keys[1] => last'.op = "U")) ]_kvars
C17_OnlyAddInstalls == [][ (KRange(keys') \ KRange(keys) # {}) =>
                             (last'.op = "A" /\ KRange(keys') \ KRange(keys) = {last'.key}) ]_kvars
C17_ReadsArePure == [][ last'.op \in {"G", "P"} => keys' = keys /\ last'.res = "ok" ]_kvars

Target == IF alive THEN DumpAt - start.less ELSE 0
KDump == (DumpAt > 0 /\ Len(hist) = Target) =>
           PrintT(<<"E", ToJson([kind |-> "ring",
                                 init |-> [keys |-> KIds(start.keys), primary |-> start.primary.id],
                                 ops  |-> hist])>>)
=============================================================================
