------------------------------- MODULE MLProps -------------------------------
(***************************************************************************)
(* The membership properties (C01 C02 C07 C08 C09-hearsay C18) as          *)
(* predicates over ONE recorded step `e` of one node.  The same predicates *)
(* are evaluated by TLC                                                    *)
(*   - on every transition of the bounded models (MemberView, Cluster),    *)
(*   - on every line of a trace recorded from the real code.               *)
(*                                                                         *)
(* Shape of a NodeOp step (one execution of aliveNode / suspectNode /      *)
(* deadNode under the node lock):                                          *)
(*   ev="NodeOp", n (local node), t (time), op, via, boot,                 *)
(*   claim=[node,inc,from,addr,port,meta,vsn,kind], allowed (claim address *)
(*   passes the allowlist), filtered (claim rejected by the version check  *)
(*   or the alive delegate), pre/post (record of the subject),             *)
(*   tpre/tpost (its suspicion timer), incPre/incPost (own incarnation     *)
(*   counter), leave (leave flag at entry), bcast, events, conflict,       *)
(*   health, members (set of [name,addr,port,meta] listed afterwards),     *)
(*   postAllowed, cfg=[reclaim,gossipDead,allowOn,...]                     *)
(***************************************************************************)
EXTENDS MLCore, MLOrderRef

Range(s) == {s[i] : i \in DOMAIN s}

IsNodeOp(e) == e.ev = "NodeOp"

\* the kind of the claim as the sender meant it (a push/pull entry keeps its remote state)
ClaimRank(e) == Rank(e.claim.kind)

\* claim e is older or weaker than what the node holds
Below(e) == \/ e.claim.inc < e.pre.inc
            \/ (e.claim.inc = e.pre.inc /\ ClaimRank(e) < Rank(e.pre.state))

AddrDiffers(e) == e.claim.addr # e.pre.addr \/ e.claim.port # e.pre.port

\* The only permitted regression: another address takes over a name whose holder
\* has left, or has been dead for longer than the reclaim time.
LegitReclaim(e) ==
  /\ e.op = "alive" /\ ~IsAbsent(e.pre) /\ AddrDiffers(e) /\ e.allowed /\ ~e.filtered
  /\ \/ e.pre.state = "left"
     \/ (e.pre.state = "dead" /\ e.cfg.reclaim > 0 /\ Since(e.t, e.pre.changed) > e.cfg.reclaim)

Unchanged(e) == e.post = e.pre /\ e.tpost = e.tpre
Silent(e)    == e.bcast = <<>> /\ e.events = <<>>

-----------------------------------------------------------------------------
(* C01 *)
C01_StaleNoEffect(e) ==
  (IsNodeOp(e) /\ ~IsAbsent(e.pre) /\ Below(e) /\ ~LegitReclaim(e)) => (Unchanged(e) /\ Silent(e))

KeyLeq(a, b) == a.inc < b.inc \/ (a.inc = b.inc /\ Rank(a.state) <= Rank(b.state))

C01_Forward(e) ==
  (IsNodeOp(e) /\ ~IsAbsent(e.pre) /\ ~IsAbsent(e.post)) => (KeyLeq(e.pre, e.post) \/ LegitReclaim(e))

-----------------------------------------------------------------------------
(* C02 *)
AboutSelf(e) == e.claim.node = e.n

Accuses(e) ==
  /\ AboutSelf(e) /\ ~e.boot /\ ~e.leave /\ ~IsAbsent(e.pre) /\ e.pre.state = "alive"
  /\ \/ (e.op \in {"suspect", "dead"} /\ e.claim.inc >= e.pre.inc)
     \/ /\ e.op = "alive" /\ ~e.filtered /\ ~AddrDiffers(e)
        /\ \/ e.claim.inc > e.pre.inc
           \/ (e.claim.inc = e.pre.inc /\ (e.claim.meta # e.pre.meta \/ e.claim.vsn # e.pre.vsn))

\* "raises its incarnation strictly above the claim": the record AND the node's incarnation counter (what the next
\* UpdateNode / Leave will draw from) - a record that runs ahead of the counter makes every later announcement stale
C02_Refute(e) ==
  (IsNodeOp(e) /\ Accuses(e)) =>
     /\ e.post.state = "alive"
     /\ e.post.inc > e.claim.inc /\ e.post.inc > e.pre.inc
     /\ e.incPost > e.claim.inc /\ e.incPost >= e.post.inc
     /\ \E i \in DOMAIN e.bcast : /\ e.bcast[i].type = "alive" /\ e.bcast[i].node = e.n
                                  /\ e.bcast[i].inc = e.post.inc

\* a push/pull entry that accuses the local node must reach the membership rules (where
\* C02_Refute judges the answer); MergeEntry lines carry the entry, the record before, and
\* the number of membership steps it caused
C02_MergeReaches(e) == (e.ev = "MergeEntry" /\ Accuses(e)) => e.nodeOps >= 1

\* after any step of a running, non-leaving node it still lists itself, alive
C02_SelfAlive(e) ==
  (e.ev \in {"NodeOp", "Reap"} /\ ~e.leave /\ e.created) =>
     /\ e.selfState = "alive"
     /\ \E m \in e.members : m.name = e.n

-----------------------------------------------------------------------------
(* C07 - evaluated with the ghost member list rebuilt from the events *)
ApplyEvent(mem, x) ==
  CASE x.kind = "join"   -> mem \cup {[name |-> x.name, addr |-> x.addr, port |-> x.port, meta |-> x.meta]}
    [] x.kind = "leave"  -> {m \in mem : m.name # x.name}
    [] x.kind = "update" -> {m \in mem : m.name # x.name}
                              \cup {[name |-> x.name, addr |-> x.addr, port |-> x.port, meta |-> x.meta]}

RECURSIVE ApplyEvents(_, _, _)
ApplyEvents(mem, evs, i) == IF i > Len(evs) THEN mem ELSE ApplyEvents(ApplyEvent(mem, evs[i]), evs, i + 1)

NamesOf(mem) == {m.name : m \in mem}

\* per member: join (update)* leave join ...
RECURSIVE EventsOrdered(_, _, _)
EventsOrdered(mem, evs, i) ==
  IF i > Len(evs) THEN TRUE
  ELSE LET x == evs[i] IN
       /\ CASE x.kind = "join"   -> x.name \notin NamesOf(mem)
            [] x.kind = "leave"  -> x.name \in NamesOf(mem)
            [] x.kind = "update" -> x.name \in NamesOf(mem)
       /\ EventsOrdered(ApplyEvent(mem, x), evs, i + 1)

\* ghost: the member list a consumer of the events holds before the step
C07_Order(e, ghost) == (e.ev \in {"NodeOp", "Reap"}) => EventsOrdered(ghost, e.events, 1)
C07_Log(e, ghost)   == (e.ev \in {"NodeOp", "Reap"}) => ApplyEvents(ghost, e.events, 1) = e.members
C07_Serial(e)       == e.ev # "EventOverlap"

-----------------------------------------------------------------------------
(* C08 - the parts that are single steps *)
\* a self-signed death notice that changes the record records a departure, not a failure
\* (the local node itself refutes unless it is leaving)
\* (a departure learnt through push/pull is one too: the entry says "left", whatever the step derived from it)
SaysLeft(e) == e.claim.from = e.claim.node \/ (e.via = "merge" /\ e.claim.kind = "left")
C08_Left(e) ==
  (IsNodeOp(e) /\ e.op = "dead" /\ SaysLeft(e) /\ e.post # e.pre
     /\ ~(AboutSelf(e) /\ ~e.leave))
    => e.post.state = "left"

\* ... and remembers the incarnation of the departure: otherwise an alive message no newer
\* than the departure could bring the member back later
C08_LeftAt(e) ==
  (IsNodeOp(e) /\ e.op = "dead" /\ e.claim.from = e.claim.node /\ e.post # e.pre /\ e.post.state = "left")
    => e.post.inc >= e.claim.inc

C08_NoResurrect(e) ==
  (IsNodeOp(e) /\ e.op = "alive" /\ e.pre.state = "left" /\ ~AddrDiffers(e) /\ e.claim.inc <= e.pre.inc
     /\ ~(AboutSelf(e) /\ e.boot))
    => (Unchanged(e) /\ Silent(e))

\* a departure stays a departure: accusations (suspect / dead claims, from gossip or push/pull, at any
\* incarnation) never turn a member that left into a suspected or failed one
C08_StaysLeft(e) ==
  (IsNodeOp(e) /\ e.pre.state = "left" /\ e.op \in {"suspect", "dead"}) => (e.post = e.pre /\ ~e.tpost.on /\ Silent(e))

\* the leaver itself: nothing about itself brings it back once the leave flag is set
C08_LeaverStays(e) ==
  (IsNodeOp(e) /\ e.op = "alive" /\ AboutSelf(e) /\ e.leave) => (Unchanged(e) /\ Silent(e))

C08_NoHijack(e) ==
  (IsNodeOp(e) /\ e.op = "alive" /\ ~IsAbsent(e.pre) /\ AddrDiffers(e) /\ ~LegitReclaim(e))
    => /\ Unchanged(e) /\ Silent(e)
       /\ (e.allowed /\ ~e.filtered /\ ~(AboutSelf(e) /\ e.leave)) => e.conflict

C08_Reuse(e) ==
  (IsNodeOp(e) /\ LegitReclaim(e) /\ ~(AboutSelf(e) /\ e.leave))
    => \/ /\ e.post.state = "alive" /\ e.post.addr = e.claim.addr /\ e.post.port = e.claim.port
          /\ \E i \in DOMAIN e.events : e.events[i].kind = "join" /\ e.events[i].name = e.claim.node
                                        /\ e.events[i].addr = e.claim.addr
       \/ (AboutSelf(e) /\ ~e.boot)     \* a claim about the local node is refuted, not adopted

-----------------------------------------------------------------------------
(* C09 - hearsay: a peer's claim that a third member is dead only starts suspicion *)
C09_Hearsay(e) ==
  (IsNodeOp(e) /\ e.via = "merge" /\ e.claim.kind = "dead")
    => /\ e.post.state \in {e.pre.state, "suspect"}
       /\ \A i \in DOMAIN e.events : e.events[i].kind # "leave"

-----------------------------------------------------------------------------
(* C18 *)
C18_Records(e) == (IsNodeOp(e) /\ e.cfg.allowOn /\ ~IsAbsent(e.post) /\ e.post # e.pre) => e.postAllowed
C18_Events(e)  == (e.ev \in {"NodeOp", "Reap"} /\ e.cfg.allowOn) =>
                     \A i \in DOMAIN e.events : e.events[i].allowed
C18_Adopt(e)   == (IsNodeOp(e) /\ e.op = "alive" /\ e.cfg.allowOn /\ ~e.allowed /\ (IsAbsent(e.pre) \/ AddrDiffers(e)))
                     => (Unchanged(e) /\ Silent(e))
\* alive gossip from a disallowed source address never reaches aliveNode
C18_Source(e)  == (e.ev = "UdpAlive" /\ e.cfg.allowOn /\ ~e.srcAllowed) => e.nodeOps = 0

-----------------------------------------------------------------------------
(* all single-step membership predicates, by name - used by models and trace specs *)
-----------------------------------------------------------------------------
(* The order core (MLOrderRef): Apalache proves C01 / C02 on these operators for *)
(* unbounded incarnations (module MLOrder); here a step - a transition of a      *)
(* bounded model or a recorded step of the real code - is compared with them.    *)
OrderView(e) == [st |-> e.pre.state, inc |-> e.pre.inc, selfInc |-> e.incPre, timerOn |-> e.tpre.on,
                 isSelf |-> AboutSelf(e), leave |-> e.leave]
OrderClaim(e) ==
  LET addrDiff == ~IsAbsent(e.pre) /\ AddrDiffers(e)
      updates  == /\ e.op = "alive" /\ addrDiff
                  /\ \/ e.pre.state = "left"
                     \/ (e.pre.state = "dead" /\ e.cfg.reclaim > 0 /\ Since(e.t, e.pre.changed) > e.cfg.reclaim)
      drop     == /\ e.op = "alive"
                  /\ \/ e.filtered
                     \/ ((IsAbsent(e.pre) \/ addrDiff) /\ ~e.allowed)
                     \/ (addrDiff /\ ~updates)
  IN [op |-> e.op, kind |-> e.claim.kind, inc |-> e.claim.inc, selfSigned |-> (e.claim.from = e.claim.node),
      gate |-> IF drop THEN "drop" ELSE "pass", updates |-> updates,
      same |-> (e.claim.meta = e.pre.meta /\ e.claim.vsn = e.pre.vsn), boot |-> e.boot]
OrderCore(e) ==
  IsNodeOp(e) =>
    LET r == OStepF(OrderView(e), OrderClaim(e)) IN
    /\ e.post.state = r.st /\ e.post.inc = r.inc /\ e.incPost = r.selfInc /\ e.tpost.on = r.timerOn

StepProps == <<"C01_StaleNoEffect", "C01_Forward", "C02_Refute", "C02_MergeReaches", "C02_SelfAlive", "C07_Serial",
               "C08_Left", "C08_LeftAt", "C08_NoResurrect", "C08_StaysLeft", "C08_LeaverStays", "C08_NoHijack", "C08_Reuse",
               "C09_Hearsay", "C18_Records", "C18_Events", "C18_Adopt", "C18_Source">>

StepHolds(name, e) ==
  CASE name = "C01_StaleNoEffect" -> C01_StaleNoEffect(e)
    [] name = "C01_Forward"       -> C01_Forward(e)
    [] name = "C02_Refute"        -> C02_Refute(e)
    [] name = "C02_MergeReaches"  -> C02_MergeReaches(e)
    [] name = "C02_SelfAlive"     -> C02_SelfAlive(e)
    [] name = "C07_Serial"        -> C07_Serial(e)
    [] name = "C08_Left"          -> C08_Left(e)
    [] name = "C08_LeftAt"        -> C08_LeftAt(e)
    [] name = "C08_NoResurrect"   -> C08_NoResurrect(e)
    [] name = "C08_StaysLeft"     -> C08_StaysLeft(e)
    [] name = "C08_LeaverStays"   -> C08_LeaverStays(e)
    [] name = "C08_NoHijack"      -> C08_NoHijack(e)
    [] name = "C08_Reuse"         -> C08_Reuse(e)
    [] name = "C09_Hearsay"       -> C09_Hearsay(e)
    [] name = "C18_Records"       -> C18_Records(e)
    [] name = "C18_Events"        -> C18_Events(e)
    [] name = "C18_Adopt"         -> C18_Adopt(e)
    [] name = "C18_Source"        -> C18_Source(e)

\* is the step one the predicate actually constrains (its antecedent)?  Used only to
\* measure how often each predicate was exercised (vacuity), never for a verdict.
StepAnte(name, e) ==
  CASE name = "C01_StaleNoEffect" -> IsNodeOp(e) /\ ~IsAbsent(e.pre) /\ Below(e) /\ ~LegitReclaim(e)
    [] name = "C01_Forward"       -> IsNodeOp(e) /\ ~IsAbsent(e.pre) /\ ~IsAbsent(e.post) /\ e.post # e.pre
    [] name = "C02_Refute"        -> IsNodeOp(e) /\ Accuses(e)
    [] name = "C02_MergeReaches"  -> e.ev = "MergeEntry" /\ Accuses(e)
    [] name = "C02_SelfAlive"     -> e.ev \in {"NodeOp", "Reap"} /\ ~e.leave /\ e.created
    [] name = "C07_Serial"        -> e.ev \in {"NodeOp", "Reap"} /\ e.events # <<>>
    [] name = "C08_Left"          -> IsNodeOp(e) /\ e.op = "dead" /\ SaysLeft(e) /\ e.post # e.pre
    [] name = "C08_LeftAt"        -> IsNodeOp(e) /\ e.op = "dead" /\ e.claim.from = e.claim.node /\ e.post # e.pre
                                     /\ e.post.state = "left"
    [] name = "C08_NoResurrect"   -> IsNodeOp(e) /\ e.op = "alive" /\ e.pre.state = "left" /\ ~AddrDiffers(e)
                                     /\ e.claim.inc <= e.pre.inc
    [] name = "C08_StaysLeft"     -> IsNodeOp(e) /\ e.pre.state = "left" /\ e.op \in {"suspect", "dead"}
    [] name = "C08_LeaverStays"   -> IsNodeOp(e) /\ e.op = "alive" /\ AboutSelf(e) /\ e.leave
    [] name = "C08_NoHijack"      -> IsNodeOp(e) /\ e.op = "alive" /\ ~IsAbsent(e.pre) /\ AddrDiffers(e) /\ ~LegitReclaim(e)
    [] name = "C08_Reuse"         -> IsNodeOp(e) /\ LegitReclaim(e)
    [] name = "C09_Hearsay"       -> IsNodeOp(e) /\ e.via = "merge" /\ e.claim.kind = "dead" /\ ~IsAbsent(e.pre)
    [] name = "C18_Records"       -> IsNodeOp(e) /\ e.cfg.allowOn /\ ~IsAbsent(e.post) /\ e.post # e.pre
    [] name = "C18_Events"        -> e.ev \in {"NodeOp", "Reap"} /\ e.cfg.allowOn /\ e.events # <<>>
    [] name = "C18_Adopt"         -> IsNodeOp(e) /\ e.op = "alive" /\ e.cfg.allowOn /\ ~e.allowed
    [] name = "C18_Source"        -> e.ev = "UdpAlive" /\ e.cfg.allowOn /\ ~e.srcAllowed

Sign(x) == IF x < 0 THEN -1 ELSE IF x > 0 THEN 1 ELSE 0

\* the abstract class of a step: what distinguishes one exercised case from another
StepClass(e) ==
  IF IsNodeOp(e)
  THEN <<e.op, e.via, e.claim.kind, e.pre.state, Sign(e.claim.inc - e.pre.inc),
         IF IsAbsent(e.pre) THEN "new" ELSE IF AddrDiffers(e) /\ e.op = "alive" THEN "otheraddr" ELSE "sameaddr",
         AboutSelf(e), e.boot, e.leave, e.tpre.on, e.allowed, e.filtered, e.post.state>>
  ELSE <<e.ev>>
=============================================================================
