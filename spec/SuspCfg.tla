------------------------------- MODULE SuspCfg -------------------------------
EXTENDS Suspicion, SuspTimeouts
\* the documented schedule, from the generated table (index k+1, c+1)
TimeoutC == [kk \in 0..SuspMaxK |-> [c \in 0..kk |-> SuspTimeoutTable[kk + 1][c + 1]]]
KsC == 0..SuspMaxK
\* arrival instants: before / between / after the possible deadlines 10, 20, 28, 35, 60 of a
\* suspicion started at 0, and after the maximum (re-suspicions shift the deadlines)
GridC == {0, 5, 15, 25, 40, 65}
GridT == {0, 5, 15, 25, 31, 40, 65, 80}
SendersC == {"s", "a", "b", "c"}
\* the model check ignores the history (the generator does not)
SView == <<now, state, k, start, conf, n, deadline, declaredAt, declaredBy, stale, seen, lastEff, episodes, last, Len(hist)>>
=============================================================================
