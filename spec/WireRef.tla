------------------------------- MODULE WireRef -------------------------------
(***************************************************************************)
(* The wire pipeline of memberlist (net.go, security.go, label.go,         *)
(* transport.go) as operations on frame TERMS.                             *)
(*                                                                         *)
(* Sending (rawSendMsgPacket / rawSendMsgStream + labelWrappedTransport):  *)
(*   message -> [compress, packets only if smaller] -> [CRC, packets only, *)
(*   if the peer is known to understand protocol 5] -> [encrypt under the  *)
(*   primary key with the label as associated data, if a keyring is        *)
(*   configured and outgoing verification is on] -> [label header].        *)
(* Receiving (ingestPacket / handleConn + readStream): the inverse, with   *)
(* the label check first, decryption with every installed key, the         *)
(* plaintext fallback when incoming verification is off, the checksum on   *)
(* the decrypted frame, then decompression.                                *)
(*                                                                         *)
(* An attacker may replace any layer of a frame in flight.  The encryption *)
(* version byte is modelled as it is in the code: OUTSIDE the authenticated*)
(* data.                                                                   *)
(*                                                                         *)
(* TLC checks, for every sender/receiver configuration pair, path and      *)
(* attack: round trip (C12), label isolation (C16), authenticity (C14),    *)
(* confidentiality of what leaves the sender (C15); and prints every case  *)
(* so that the harness runs it between two real nodes.                     *)
(***************************************************************************)
EXTENDS Integers, Sequences, FiniteSets, TLC, Json

\* configurations: [label, skip, keys (sequence, first = primary), vin, vout, proto, comp]

EncOn(c)   == Len(c.keys) > 0
Primary(c) == c.keys[1]
KeySet(c)  == {c.keys[i] : i \in DOMAIN c.keys}
EncVsn(c)  == IF c.proto = 1 THEN 0 ELSE 1

\* ---- frames -------------------------------------------------------------------
\* [lab: label header or "", enc: "none" | key id, aad: label bound into the ciphertext,
\*  vsn: encryption version byte, pad: is the plaintext padded (version 0 sealing),
\*  intact: ciphertext unmodified, crc: "none"|"ok"|"bad", comp: BOOLEAN, msg: message class,
\*  path: "packet"|"stream"]
Send(c, m, path, peerCrc, shrinks) ==
  [lab    |-> c.label,
   enc    |-> IF EncOn(c) /\ c.vout THEN Primary(c) ELSE "none",
   aad    |-> c.label,
   vsn    |-> EncVsn(c), pad |-> (EncVsn(c) = 0),
   intact |-> TRUE,
   crc    |-> IF path = "packet" /\ peerCrc THEN "ok" ELSE "none",
   comp   |-> IF path = "packet" THEN (c.comp /\ shrinks) ELSE c.comp,
   msg    |-> m, path |-> path]

\* ---- receiving ----------------------------------------------------------------
\* result: [acc: BOOLEAN, why: STRING, msg: delivered message class or "garbled"]
Drop(why) == [acc |-> FALSE, why |-> why, msg |-> "none"]
\* a ciphertext handled as if it were plaintext is a garbage message: its first byte (the encryption
\* version, 0 or 1) reads as a ping / indirect-ping type and the rest may or may not decode - the
\* model leaves open whether the receiver reacts to it (it never carries membership data)
Garbage(why) == [acc |-> FALSE, why |-> why, msg |-> "garbled"]

Recv(c, f) ==
  LET lab == IF c.skip THEN c.label ELSE f.lab IN
  IF c.skip /\ f.lab # "" THEN Drop("double-label")
  ELSE IF c.label # lab THEN Drop("label")
  ELSE IF f.enc # "none"
       THEN \* ciphertext on the wire
            IF ~EncOn(c) THEN (IF f.path = "stream" THEN Drop("encrypted-unconfigured") ELSE Garbage("undecodable"))
            ELSE IF f.enc \in KeySet(c) /\ f.intact /\ f.aad = lab
                 THEN \* opens.  The version byte decides whether padding is removed.
                      IF f.crc = "bad" THEN Drop("crc")
                      ELSE IF (f.vsn = 0) = f.pad THEN [acc |-> TRUE, why |-> "ok", msg |-> f.msg]
                      ELSE [acc |-> TRUE, why |-> "version-flipped", msg |-> "garbled"]
                 ELSE IF c.vin \/ f.path = "stream" THEN Drop("auth")
                 ELSE Garbage("undecodable")   \* treated as plaintext: a ciphertext is not a message
  ELSE \* plaintext on the wire
       IF EncOn(c) /\ c.vin THEN Drop("plaintext-refused")
       ELSE IF f.crc = "bad" THEN Drop("crc")
       ELSE [acc |-> TRUE, why |-> "ok", msg |-> f.msg]

\* ---- the attacker -------------------------------------------------------------
Tamper(f, a, foreignKey, otherLabel) ==
  CASE a = "none"        -> f
    [] a = "body"        -> IF f.enc # "none" THEN [f EXCEPT !.intact = FALSE] ELSE [f EXCEPT !.msg = "garbled"]
    [] a = "version"     -> IF f.enc # "none" THEN [f EXCEPT !.vsn = 1 - @] ELSE [f EXCEPT !.msg = "garbled"]
    [] a = "relabel"     -> [f EXCEPT !.lab = otherLabel]
    [] a = "striplabel"  -> [f EXCEPT !.lab = ""]
    [] a = "foreignkey"  -> [f EXCEPT !.enc = IF @ = "none" THEN "none" ELSE foreignKey]
    [] a = "plaintext"   -> [f EXCEPT !.enc = "none"]
    [] a = "crc"         -> IF f.crc = "ok" /\ f.enc = "none" THEN [f EXCEPT !.crc = "bad"]
                            ELSE IF f.enc # "none" THEN [f EXCEPT !.intact = FALSE] ELSE [f EXCEPT !.msg = "garbled"]

\* ---- what the properties say about one case --------------------------------------
\* a receiver whose label check is delegated to an outer layer sees traffic of its own label
\* with the header already removed by that layer (the "striplabel" step)
Compatible(s, r, a) ==
  /\ s.label = r.label
  /\ (IF r.skip THEN (a = "striplabel" \/ (a = "none" /\ s.label = "")) ELSE a = "none")
  /\ IF EncOn(s) /\ s.vout THEN EncOn(r) /\ Primary(s) \in KeySet(r)
     ELSE (~EncOn(r) \/ ~r.vin)

\* C12: a compatible peer recovers exactly the message
C12_RoundTrip(s, r, m, a, f) ==
  Compatible(s, r, a) => LET x == Recv(r, f) IN x.acc /\ x.msg = m

\* C16: traffic for another label has no effect
C16_Isolated(s, r, f) ==
  LET onWire == f.lab IN
  (IF r.skip THEN onWire # "" ELSE onWire # r.label) => ~Recv(r, f).acc

\* C14: with verification on, only frames sealed under an installed key with the node's label act,
\* and they deliver the original message
Genuine(r, f, m) == f.enc \in KeySet(r) /\ f.intact /\ f.aad = (IF r.skip THEN r.label ELSE f.lab) /\ f.msg = m
C14_OnlyAuthentic(r, f, m) ==
  (EncOn(r) /\ r.vin /\ Recv(r, f).acc) => (f.enc # "none" /\ Genuine(r, f, m) /\ Recv(r, f).msg = m)

\* C15: with outgoing verification on, everything is sealed under the primary key with the label
C15_Sealed(s, f) == (EncOn(s) /\ s.vout) => (f.enc = Primary(s) /\ f.aad = s.label)
=============================================================================
