------------------------------ MODULE TraceWire ------------------------------
(***************************************************************************)
(* Judge of wire cases executed between two real nodes.  One line per case:*)
(* the case as generated from module Wire (configurations, message class,  *)
(* path, attack) and what really happened (what left the sender, what the  *)
(* receiver did, what it replied).  TLC evaluates the C12 / C14 / C15 / C16*)
(* predicates on the recorded outcome, and compares the receiver's         *)
(* accept/ignore decision with the model's (a difference is DRIFT).        *)
(***************************************************************************)
EXTENDS WireRef, IOUtils

TraceFile == IOEnv.VERIF_TRACE
Trace == ndJsonDeserialize(TraceFile)

VARIABLES l
Report(kind, name, e, ok) == IF ok THEN TRUE ELSE PrintT(<<kind, name, l, e.case, 0>>)

Applied(e) == e.note = "" /\ e.frames > 0

JudgeW(e) ==
  LET f0 == Send(e.s, e.msg, e.path, e.peerCrc, e.shrinks)
      f  == Tamper(f0, e.attack, e.foreignKey, e.otherLabel)
      x  == Recv(e.r, f)
      wrongLabel == IF e.r.skip THEN f.lab # "" ELSE f.lab # e.r.label
      genuine == f.enc \in KeySet(e.r) /\ f.intact /\ f.aad = (IF e.r.skip THEN e.r.label ELSE f.lab)
  IN
  /\ Report("VERDICT", "C13_NoPanic", e, e.panic = "")
  /\ Report("VERDICT", "C15_Sealed", e, (e.frames > 0 /\ EncOn(e.s) /\ e.s.vout) => (e.sealed /\ ~e.canary))
  \* ... and so is whatever the receiver sends in response (acks, nacks, relayed pings, its push/pull state,
  \* error replies) when it enforces encryption
  /\ Report("VERDICT", "C15_ReplySealed", e, (e.replyFrames > 0 /\ EncOn(e.r) /\ e.r.vout) => e.replySealed)
  /\ (IF e.replyFrames > 0 /\ EncOn(e.r) /\ e.r.vout THEN PrintT(<<"STAT2", "C15_replies_checked", 1, 1>>) ELSE TRUE)
  /\ Applied(e) =>
       /\ Report("VERDICT", "C12_RoundTrip", e,
                 Compatible(e.s, e.r, e.attack) => (e.acted /\ e.delivered = e.sentDigest))
       /\ Report("VERDICT", "C16_Isolated", e, wrongLabel => (~e.acted /\ e.reply = "none"))
       /\ Report("VERDICT", "C14_OnlyAuthentic", e,
                 (EncOn(e.r) /\ e.r.vin /\ e.acted) => (f.enc # "none" /\ genuine /\ e.delivered = e.sentDigest))
       /\ Report("VERDICT", "C14_ErrOnly", e,
                 (EncOn(e.r) /\ e.r.vin /\ ~(f.enc # "none" /\ genuine)) => e.reply \in {"none", "err"})
       \* whether a frame whose plaintext was modified still decodes is not determined by the model
       /\ Report("DRIFT", "accept", e, x.msg = "garbled" \/ e.acted = x.acc)
       /\ (IF Compatible(e.s, e.r, e.attack) THEN PrintT(<<"STAT2", "C12_compatible", 1, 1>>) ELSE TRUE)
       /\ (IF wrongLabel THEN PrintT(<<"STAT2", "C16_wronglabel", 1, 1>>) ELSE TRUE)
       /\ (IF EncOn(e.r) /\ e.r.vin /\ e.mutated THEN PrintT(<<"STAT2", "C14_tampered", 1, 1>>) ELSE TRUE)
       /\ (IF EncOn(e.s) /\ e.s.vout THEN PrintT(<<"STAT2", "C15_enforced", 1, 1>>) ELSE TRUE)

\* C16: adding and then removing the label header returns the original payload and label
JudgeCodec(e) ==
  /\ Report("VERDICT", "C16_Codec", e, e.ok)
  /\ PrintT(<<"STAT2", "C16_codec_" \o e.kind, 1, 1>>)

TInit == l = 1
TStep == /\ l <= Len(Trace)
         /\ (IF Trace[l].ev = "Codec" THEN JudgeCodec(Trace[l]) ELSE JudgeW(Trace[l]))
         /\ l' = l + 1
TDone == l = Len(Trace) + 1 /\ PrintT(<<"DONE", Len(Trace)>>) /\ l' = l + 1
TSpec == TInit /\ [][TStep \/ TDone]_l
=============================================================================
