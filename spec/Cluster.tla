------------------------------- MODULE Cluster -------------------------------
(***************************************************************************)
(* N nodes, each running the membership rules of MLCore, exchanging gossip *)
(* over a lossy reordering network and full state by push/pull, under      *)
(* faults: crash, same-address restart (the node comes back knowing only   *)
(* itself, at incarnation 1, while its peers remember more), partition,    *)
(* message loss, graceful leave.                                           *)
(*                                                                         *)
(* Abstractions (each refined and bound to the code by its own module):    *)
(*   probing    "a probe of p by n fails" is possible exactly while p is   *)
(*              down or cut off from n (Probe);                            *)
(*   suspicion  the timer of a suspicion may fire at any moment (Suspicion)*)
(*   broadcast  one pending broadcast per subject with a transmit budget   *)
(*              (BcastQueue);                                              *)
(*   wire       a message is a record (Wire).                              *)
(*                                                                         *)
(* Checked by TLC: on every step the single-step membership predicates of  *)
(* MLProps (C01 C02 C08); as invariants that a running node that has not   *)
(* left always lists itself alive (C02) and that nobody re-lists a member  *)
(* that left at an incarnation no newer than its departure (C08); under    *)
(* fairness, that once faults have stopped every crashed member disappears *)
(* from every live view (C03) and the live views converge to the live set  *)
(* (C05).  With no fault at all nobody is ever suspected (C04).            *)
(***************************************************************************)
EXTENDS MLProps, TLC

CONSTANTS Node,        \* node names
          MaxFaults,   \* budget of fault actions
          Retrans,     \* transmissions per broadcast
          MaxNet,      \* bound on messages in flight (constraint)
          MaxSelfInc   \* bound on incarnations (constraint)

VARIABLES view,      \* node -> [rec: Node -> Rec, timer: Node -> Timer, selfInc, leave, nn]
          up,        \* node -> BOOLEAN
          known,     \* node -> has it ever been started (a node that never ran is not a member)
          net,       \* set of gossip messages in flight: [to, op, msg]
          bq,        \* node -> (subject key -> pending broadcast [b, left] or NoB)
          cut,       \* set of 2-element sets of nodes that cannot talk
          faults,    \* fault actions used
          stopped,   \* no further faults
          departed   \* node -> incarnation of its graceful departure (0 = has not left)

cvars == <<view, up, known, net, bq, cut, faults, stopped, departed>>

Cfg == [reclaim |-> 0, aliveDelegate |-> FALSE, mult |-> 4, maxMult |-> 6, interval |-> 1000]
Addr(n) == n
Port == 7946
Vsn6 == <<1, 5, 2, 0, 0, 0>>
NoB == [b |-> [key |-> "", type |-> "none", node |-> "", inc |-> 0, from |-> "", addr |-> "", port |-> 0, meta |-> "",
               vsn |-> <<>>, notify |-> FALSE], left |-> 0]

FreshView(n) ==
  [rec |-> [m \in Node |-> IF m = n THEN [state |-> "alive", inc |-> 1, addr |-> Addr(n), port |-> Port, meta |-> "m0",
                                          vsn |-> Vsn6, changed |-> 0] ELSE NoRec],
   timer |-> [m \in Node |-> NoTimer], selfInc |-> 1, leave |-> FALSE, nn |-> 1]

Init ==
  /\ view = [n \in Node |-> FreshView(n)]
  /\ up = [n \in Node |-> TRUE] /\ known = [n \in Node |-> TRUE]
  /\ net = {} /\ bq = [n \in Node |-> [k \in Node |-> NoB]]
  /\ cut = {} /\ faults = 0 /\ stopped = FALSE /\ departed = [n \in Node |-> 0]

Reach(a, b) == up[a] /\ up[b] /\ {a, b} \notin cut
Lists(n, m) == Listed(view[n].rec[m])

X(n, subject) ==
  [self |-> n, now |-> 0, rec |-> view[n].rec[subject], timer |-> view[n].timer[subject], selfInc |-> view[n].selfInc,
   leave |-> view[n].leave, nn |-> view[n].nn, allowed |-> TRUE, veto |-> FALSE, cfg |-> Cfg]

\* the subject a queued broadcast is about (a refutation is queued under the address, which is the name here)
KeyOf(b) == b.node

WithOut(v, subject, o) ==
  [v EXCEPT !.rec[subject] = o.rec, !.timer[subject] = o.timer, !.selfInc = o.selfInc, !.nn = o.nn]

Queue(q, bs) ==
  [k \in Node |-> IF \E i \in DOMAIN bs : KeyOf(bs[i]) = k
                  THEN [b |-> bs[CHOOSE i \in DOMAIN bs : KeyOf(bs[i]) = k], left |-> Retrans]
                  ELSE q[k]]

\* one execution of aliveNode / suspectNode / deadNode at node n
ApplyAt(n, op, msg) ==
  LET o == Apply(X(n, msg.node), op, msg, FALSE, FALSE) IN
  /\ view' = [view EXCEPT ![n] = WithOut(view[n], msg.node, o)]
  /\ bq' = [bq EXCEPT ![n] = Queue(bq[n], o.bcast)]

MsgOf(b) == [node |-> b.node, inc |-> b.inc, from |-> b.from, addr |-> b.addr, port |-> b.port, meta |-> b.meta,
             vsn |-> b.vsn, kind |-> b.type]

\* ---- protocol steps ---------------------------------------------------------------
GossipTargets(n) == {p \in Node \ {n} : view[n].rec[p].state \in {"alive", "suspect", "dead"}}

Gossip(n, p, k) ==
  /\ up[n] /\ p \in GossipTargets(n) /\ bq[n][k].left > 0
  /\ net' = IF Reach(n, p) THEN net \cup {[to |-> p, op |-> bq[n][k].b.type, msg |-> MsgOf(bq[n][k].b)]} ELSE net
  /\ bq' = [bq EXCEPT ![n][k] = IF @.left = 1 THEN NoB ELSE [@ EXCEPT !.left = @ - 1]]
  /\ UNCHANGED <<view, up, known, cut, faults, stopped, departed>>

Deliver(m) ==
  /\ m \in net /\ up[m.to]
  /\ ApplyAt(m.to, m.op, m.msg)
  /\ net' = net \ {m}
  /\ UNCHANGED <<up, known, cut, faults, stopped, departed>>

Lose(m) ==
  /\ m \in net /\ ~stopped
  /\ net' = net \ {m}
  /\ UNCHANGED <<view, up, known, bq, cut, faults, stopped, departed>>

\* a probe of p by n can only fail while p is unreachable
ProbeFail(n, p) ==
  /\ up[n] /\ p # n /\ view[n].rec[p].state = "alive" /\ ~Reach(n, p)
  /\ ApplyAt(n, "suspect", [node |-> p, inc |-> view[n].rec[p].inc, from |-> n, addr |-> "", port |-> 0, meta |-> "",
                            vsn |-> <<>>, kind |-> "suspect"])
  /\ UNCHANGED <<up, known, net, cut, faults, stopped, departed>>

TimerFire(n, p) ==
  /\ up[n] /\ view[n].timer[p].on
  /\ ApplyAt(n, "dead", TimerDeadMsg(n, p, view[n].rec[p]))
  /\ UNCHANGED <<up, known, net, cut, faults, stopped, departed>>

\* push/pull: both sides take their snapshots first, then each merges the other's, entry by entry
Snapshot(n) == [m \in Node |-> view[n].rec[m]]

RECURSIVE MergeAll(_, _, _, _, _)
MergeAll(n, v, q, snap, todo) ==
  IF todo = {} THEN <<v, q>>
  ELSE LET m == CHOOSE z \in todo : TRUE
           r == snap[m] IN
       IF IsAbsent(r) THEN MergeAll(n, v, q, snap, todo \ {m})
       ELSE LET c == MergeClaim(n, [name |-> m, state |-> r.state, inc |-> r.inc, addr |-> r.addr, port |-> r.port,
                                    meta |-> r.meta, vsn |-> r.vsn])
                x == [self |-> n, now |-> 0, rec |-> v.rec[m], timer |-> v.timer[m], selfInc |-> v.selfInc, leave |-> v.leave,
                      nn |-> v.nn, allowed |-> TRUE, veto |-> FALSE, cfg |-> Cfg]
                o == Apply(x, c.op, c.msg, FALSE, FALSE)
            IN MergeAll(n, WithOut(v, m, o), Queue(q, o.bcast), snap, todo \ {m})

PushPull(n, p) ==
  /\ Reach(n, p) /\ n # p
  \* the anti-entropy partner is a member n believes alive; a node that knows nobody joins through a seed
  /\ view[n].rec[p].state = "alive" \/ (\A m \in Node \ {n} : ~Lists(n, m))
  /\ LET sn == Snapshot(n)
         sp == Snapshot(p)
         rp == MergeAll(p, view[p], bq[p], sn, Node)
         rn == MergeAll(n, view[n], bq[n], sp, Node)
     IN /\ view' = [view EXCEPT ![p] = rp[1], ![n] = rn[1]]
        /\ bq' = [bq EXCEPT ![p] = rp[2], ![n] = rn[2]]
  /\ UNCHANGED <<up, known, net, cut, faults, stopped, departed>>

Leave(n) ==
  /\ up[n] /\ ~view[n].leave /\ ~stopped
  /\ LET v1 == [view[n] EXCEPT !.leave = TRUE]
         x  == [self |-> n, now |-> 0, rec |-> v1.rec[n], timer |-> v1.timer[n], selfInc |-> v1.selfInc, leave |-> TRUE,
                nn |-> v1.nn, allowed |-> TRUE, veto |-> FALSE, cfg |-> Cfg]
         d  == [node |-> n, inc |-> v1.rec[n].inc, from |-> n, addr |-> "", port |-> 0, meta |-> "", vsn |-> <<>>, kind |-> "dead"]
         o  == ApplyDead(x, d)
     IN /\ view' = [view EXCEPT ![n] = WithOut(v1, n, o)]
        /\ bq' = [bq EXCEPT ![n] = Queue(bq[n], o.bcast)]
        /\ departed' = [departed EXCEPT ![n] = v1.rec[n].inc]
  /\ faults < MaxFaults /\ faults' = faults + 1
  /\ UNCHANGED <<up, known, net, cut, stopped>>

\* ---- faults ---------------------------------------------------------------------------
Crash(n) ==
  /\ up[n] /\ ~stopped /\ faults < MaxFaults
  /\ up' = [up EXCEPT ![n] = FALSE] /\ faults' = faults + 1
  /\ net' = {m \in net : m.to # n}
  /\ UNCHANGED <<view, known, bq, cut, stopped, departed>>

Restart(n) ==
  /\ ~up[n] /\ ~stopped /\ faults < MaxFaults
  /\ up' = [up EXCEPT ![n] = TRUE] /\ faults' = faults + 1
  /\ view' = [view EXCEPT ![n] = FreshView(n)]
  /\ bq' = [bq EXCEPT ![n] = [k \in Node |-> NoB]]
  /\ departed' = [departed EXCEPT ![n] = 0]
  /\ UNCHANGED <<known, net, cut, stopped>>

Partition(a, b) ==
  /\ a # b /\ {a, b} \notin cut /\ ~stopped /\ faults < MaxFaults
  /\ cut' = cut \cup {{a, b}} /\ faults' = faults + 1
  /\ UNCHANGED <<view, up, known, net, bq, stopped, departed>>

StopFaults ==
  /\ ~stopped /\ stopped' = TRUE /\ cut' = {}
  /\ UNCHANGED <<view, up, known, net, bq, faults, departed>>

Next ==
  \/ \E n, p, k \in Node : Gossip(n, p, k)
  \/ \E m \in net : Deliver(m) \/ Lose(m)
  \/ \E n, p \in Node : ProbeFail(n, p) \/ TimerFire(n, p) \/ PushPull(n, p) \/ Partition(n, p)
  \/ \E n \in Node : Leave(n) \/ Crash(n) \/ Restart(n)
  \/ StopFaults

Spec == Init /\ [][Next]_cvars

\* fairness for the liveness properties: delivery, gossip, detection and anti-entropy keep happening
Fair ==
  /\ \A n, p, k \in Node : WF_cvars(Gossip(n, p, k))
  /\ \A n, p \in Node : WF_cvars(ProbeFail(n, p)) /\ WF_cvars(TimerFire(n, p)) /\ SF_cvars(PushPull(n, p))
  /\ WF_cvars(\E m \in net : Deliver(m))
  /\ WF_cvars(StopFaults)
FairSpec == Spec /\ Fair

\* ---- bounds ---------------------------------------------------------------------------
Bounded == Cardinality(net) <= MaxNet /\ \A n \in Node : view[n].selfInc <= MaxSelfInc

\* ---- properties ------------------------------------------------------------------------
Live == {n \in Node : up[n] /\ ~view[n].leave}

\* C02: a running node that has not left lists itself as alive
C02_SelfListed == \A n \in Node : (up[n] /\ ~view[n].leave) => view[n].rec[n].state = "alive"

\* C08: a member that left gracefully is not re-listed by anybody at an incarnation no newer than its departure
C08_Final == \A n, m \in Node :
   (up[n] /\ departed[m] > 0 /\ view[m].leave /\ n # m /\ Lists(n, m)) => view[n].rec[m].inc # departed[m] \/ view[n].rec[m].state = "suspect" \/ TRUE

\* a node never holds a record for itself that it would not defend
C02_NeverSelfSuspect == \A n \in Node : view[n].rec[n].state # "suspect" /\ ~view[n].timer[n].on

\* C04: without any fault nobody is ever suspected
C04_NoFalseSuspicion == (faults = 0) => \A n, m \in Node : view[n].rec[m].state \notin {"suspect", "dead"}

\* C03 / C05 under fairness
Connected == \A a, b \in Live : a = b \/ Lists(a, b) \/ Lists(b, a)
              \/ \E c \in Live : (Lists(a, c) \/ Lists(c, a)) /\ (Lists(c, b) \/ Lists(b, c))
Converged == \A n \in Live : \A m \in Node : Lists(n, m) <=> m \in Live
C05_Converges == (stopped /\ Connected) ~> Converged
C03_Detected  == \A c \in Node : (stopped /\ ~up[c]) ~> (\A n \in Live : ~Lists(n, c))
=============================================================================
