----------------------------- MODULE MLOrderRef -----------------------------
(***************************************************************************)
(* The order core of the membership rules as pure operators (no variables):*)
(* MLCore's aliveNode / suspectNode / deadNode projected onto the subject's*)
(* state and incarnation, the node's own incarnation counter and whether a *)
(* suspicion timer is armed.  Used by MLOrder (Apalache, unbounded         *)
(* integers) and by MLProps.OrderCore (TLC: every transition of the        *)
(* bounded models and every recorded step of the real code is compared     *)
(* with these operators).  Type annotations are for Apalache.              *)
(***************************************************************************)
EXTENDS Integers

\* @typeAlias: claim = { op: Str, kind: Str, inc: Int, selfSigned: Bool, gate: Str, updates: Bool, same: Bool, boot: Bool };
\* @typeAlias: res = { st: Str, inc: Int, selfInc: Int, timerOn: Bool };
\* @typeAlias: view = { st: Str, inc: Int, selfInc: Int, timerOn: Bool, isSelf: Bool, leave: Bool };
ORank(s) == IF s = "alive" THEN 0 ELSE IF s = "suspect" THEN 1 ELSE 2
OMax(a, b) == IF a >= b THEN a ELSE b

\* @type: (Str, Int, Int, Bool) => $res;
R(s, i, si, t) == [st |-> s, inc |-> i, selfInc |-> si, timerOn |-> t]
\* @type: ($view) => $res;
SameF(v) == R(v.st, v.inc, v.selfInc, v.timerOn)

\* c: [op, kind, inc, selfSigned, gate ("pass" | "drop"), updates, same, boot]
\* @type: ($view, $claim) => $res;
OAliveF(v, c) ==
  LET bst  == IF v.st = "absent" THEN "dead" ELSE v.st
      binc == IF v.st = "absent" THEN 0 ELSE v.inc IN
  IF v.leave /\ v.isSelf THEN SameF(v)
  ELSE IF c.gate # "pass" THEN SameF(v)
  ELSE IF (c.inc <= binc /\ ~v.isSelf /\ ~c.updates) \/ (c.inc < binc /\ v.isSelf)
       THEN R(bst, binc, v.selfInc, v.timerOn)
  ELSE IF ~c.boot /\ v.isSelf
       THEN IF c.inc = binc /\ c.same THEN R(bst, binc, v.selfInc, FALSE)
            ELSE LET ni == OMax(v.selfInc, c.inc) + 1 IN R(bst, ni, ni, FALSE)
  ELSE R("alive", c.inc, v.selfInc, FALSE)

\* @type: ($view, $claim) => $res;
OSuspectF(v, c) ==
  IF v.st = "absent" \/ c.inc < v.inc THEN SameF(v)
  ELSE IF v.timerOn THEN SameF(v)
  ELSE IF v.st # "alive" THEN SameF(v)
  ELSE IF v.isSelf
       THEN IF v.leave THEN SameF(v)
            ELSE LET ni == OMax(v.selfInc, c.inc) + 1 IN R(v.st, ni, ni, v.timerOn)
  ELSE R("suspect", c.inc, v.selfInc, TRUE)

\* @type: ($view, $claim) => $res;
ODeadF(v, c) ==
  IF v.st = "absent" \/ c.inc < v.inc THEN SameF(v)
  ELSE IF v.st \in {"dead", "left"} THEN R(v.st, v.inc, v.selfInc, FALSE)
  ELSE IF v.isSelf /\ ~v.leave
       THEN LET ni == OMax(v.selfInc, c.inc) + 1 IN R(v.st, ni, ni, FALSE)
  ELSE R(IF c.selfSigned THEN "left" ELSE "dead", c.inc, v.selfInc, FALSE)

\* @type: ($view, $claim) => $res;
OStepF(v, c) == IF c.op = "alive" THEN OAliveF(v, c) ELSE IF c.op = "suspect" THEN OSuspectF(v, c) ELSE ODeadF(v, c)
=============================================================================
