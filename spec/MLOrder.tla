------------------------------- MODULE MLOrder -------------------------------
(***************************************************************************)
(* The ORDER CORE of the membership rules: MLCore's aliveNode / suspectNode*)
(* / deadNode projected onto what decides precedence - the subject's state *)
(* and incarnation, the node's own incarnation counter, whether a          *)
(* suspicion timer is armed and the leave flag - with everything else a    *)
(* claim depends on (version check, alive delegate, allowlist, address     *)
(* conflict, reclaim) reduced to the flags `gate`, `updates` and `same`.   *)
(*                                                                         *)
(* Purpose: the bounded models fix incarnations to 0..3.  Here they are    *)
(* unbounded integers, and Apalache proves, as an inductive invariant plus *)
(* action invariants over ALL integer values (cfg/MLOrder.apalache.sh):    *)
(*   O_Forward   a record only moves forward in (incarnation, rank) unless *)
(*               another address legitimately takes the name over   (C01)  *)
(*   O_Stale     a claim below the record changes nothing           (C01)  *)
(*   O_Refute    an accusation of the local node is beaten strictly (C02)  *)
(*   O_SelfInc   the own incarnation counter never decreases and bounds    *)
(*               the own record                                            *)
(* TLC binds the operators (MLOrderRef) to MLCore and to the code:         *)
(* MLProps.OrderCore compares them with every transition of the bounded    *)
(* models and with every recorded step of the real code.                   *)
(***************************************************************************)
EXTENDS MLOrderRef

VARIABLES
  \* @type: Str;
  st,        \* subject's state: absent | alive | suspect | dead | left
  \* @type: Int;
  inc,       \* subject's incarnation
  \* @type: Int;
  selfInc,   \* the node's own incarnation counter
  \* @type: Bool;
  timerOn,   \* a suspicion timer is armed for the subject
  \* @type: Bool;
  isSelf,    \* the subject is the local node itself
  \* @type: Bool;
  leave,     \* the leave flag
  \* @type: Int;
  taken,     \* incarnation UpdateNode took from the counter and has not announced yet (-1: none)
  \* @type: $lastc;
  last       \* the claim just processed and the record before it

\* @typeAlias: lastc = { op: Str, kind: Str, inc: Int, selfSigned: Bool, gate: Str, updates: Bool, same: Bool, boot: Bool, pst: Str, pinc: Int, pself: Int, pleave: Bool };
\* @type: ($claim) => $res;
OStep(c) == OStepF([st |-> st, inc |-> inc, selfInc |-> selfInc, timerOn |-> timerOn, isSelf |-> isSelf, leave |-> leave], c)

\* ---- the state machine (for Apalache) ---------------------------------------------------
States == {"absent", "alive", "suspect", "dead", "left"}
\* @type: ($claim) => Bool;
WellFormed(c) ==
  /\ c.op \in {"alive", "suspect", "dead"} /\ c.kind \in {"alive", "suspect", "dead", "left"}
  /\ (c.op = "alive" => c.kind = "alive")
  /\ (c.op = "suspect" => c.kind \in {"suspect", "dead"})     \* a push/pull 'dead' entry only starts suspicion
  /\ (c.op = "dead" => (c.kind \in {"dead", "left"} /\ (c.selfSigned <=> c.kind = "left")))
  /\ c.gate \in {"pass", "drop"}
  /\ c.inc >= 0
  \* another address may take a name over only from a holder that left or is dead
  /\ (c.updates => (c.op = "alive" /\ st \in {"left", "dead"}))
  /\ (c.boot => isSelf)
  \* the node's first announcement (setAlive) is a bootstrap claim; every later bootstrap claim is UpdateNode's,
  \* carrying the incarnation it took from the counter
  /\ ((isSelf /\ st = "absent") => c.boot)
  /\ (c.boot => (taken >= 0 /\ c.inc = taken /\ c.op = "alive"))

Init ==
  /\ st = "absent" /\ inc = 0 /\ selfInc = 0 /\ timerOn = FALSE /\ leave = FALSE /\ taken = -1
  /\ isSelf \in BOOLEAN
  /\ last = [op |-> "alive", kind |-> "alive", inc |-> 0, selfSigned |-> FALSE, gate |-> "drop", updates |-> FALSE,
             same |-> TRUE, boot |-> FALSE, pst |-> "absent", pinc |-> 0, pself |-> 0, pleave |-> FALSE]

Claim ==
  \E op \in {"alive", "suspect", "dead"}, kind \in {"alive", "suspect", "dead", "left"}, i \in Nat,
     ss \in BOOLEAN, g \in {"pass", "drop"}, up \in BOOLEAN, sm \in BOOLEAN, bt \in BOOLEAN :
    LET c == [op |-> op, kind |-> kind, inc |-> i, selfSigned |-> ss, gate |-> g, updates |-> up, same |-> sm, boot |-> bt]
        r == OStep(c) IN
    /\ WellFormed(c)
    /\ st' = r.st /\ inc' = r.inc /\ selfInc' = r.selfInc /\ timerOn' = r.timerOn
    /\ last' = [op |-> op, kind |-> kind, inc |-> i, selfSigned |-> ss, gate |-> g, updates |-> up, same |-> sm,
                boot |-> bt, pst |-> st, pinc |-> inc, pself |-> selfInc, pleave |-> leave]
    /\ taken' = IF bt THEN -1 ELSE taken
    /\ UNCHANGED <<isSelf, leave>>

\* the suspicion timer fires (state suspect -> dead at the same incarnation); Leave sets the flag; the own
\* counter is bumped by UpdateNode / Leave; reaping forgets a dead record
Fire  == /\ timerOn /\ st = "suspect" /\ st' = "dead" /\ timerOn' = FALSE /\ UNCHANGED <<inc, selfInc, isSelf, leave, taken, last>>
SetLeave == /\ isSelf /\ leave' = TRUE /\ UNCHANGED <<st, inc, selfInc, timerOn, isSelf, taken, last>>
\* UpdateNode takes the next incarnation (announced later by a bootstrap claim); Leave's own bump is the same step
Bump  == /\ isSelf /\ selfInc' = selfInc + 1 /\ taken' = selfInc + 1
         /\ UNCHANGED <<st, inc, timerOn, isSelf, leave, last>>
Reap  == /\ ~isSelf /\ st \in {"dead", "left"} /\ st' = "absent" /\ inc' = 0 /\ timerOn' = FALSE
         /\ UNCHANGED <<selfInc, isSelf, leave, taken, last>>
Next == Claim \/ Fire \/ SetLeave \/ Bump \/ Reap

\* ---- invariants ------------------------------------------------------------------------------
TypeOK == /\ st \in States /\ inc \in Nat /\ selfInc \in Nat /\ timerOn \in BOOLEAN /\ isSelf \in BOOLEAN /\ leave \in BOOLEAN
          /\ last.op \in {"alive", "suspect", "dead"} /\ last.kind \in {"alive", "suspect", "dead", "left"}
          /\ last.gate \in {"pass", "drop"} /\ last.pst \in States /\ last.inc \in Nat /\ last.pinc \in Nat /\ last.pself \in Nat
\* inductive: a timer is armed only for a suspect; an unknown member has incarnation 0; the own record never
\* runs ahead of the own counter once the node has announced itself
IndInv == /\ TypeOK
          /\ (timerOn => st = "suspect")
          /\ (st = "absent" => inc = 0)
          /\ taken >= -1 /\ taken <= selfInc
          /\ ((isSelf /\ st # "absent" /\ ~leave) => inc <= selfInc)
          /\ ((taken >= 0 /\ ~leave) => inc # taken)
          /\ (~isSelf => taken = -1)
          \* the local node never holds itself suspect, and dead / left only once it is leaving
          /\ (isSelf => (st # "suspect" /\ ~timerOn))
          /\ ((isSelf /\ st \in {"dead", "left"}) => leave)

\* every state satisfying the inductive invariant (the starting point of the inductive step)
IndInit ==
  /\ st \in States /\ inc \in Nat /\ selfInc \in Nat /\ timerOn \in BOOLEAN /\ isSelf \in BOOLEAN /\ leave \in BOOLEAN
  /\ taken \in Int
  /\ last \in [op: {"alive", "suspect", "dead"}, kind: {"alive", "suspect", "dead", "left"}, inc: Nat, selfSigned: BOOLEAN,
               gate: {"pass", "drop"}, updates: BOOLEAN, same: BOOLEAN, boot: BOOLEAN, pst: States, pinc: Nat, pself: Nat,
               pleave: BOOLEAN]
  /\ IndInv

OKeyLeq(s1, i1, s2, i2) == i1 < i2 \/ (i1 = i2 /\ ORank(s1) <= ORank(s2))
OBelow(ci, ck, s, i) == ci < i \/ (ci = i /\ ORank(ck) < ORank(s))

\* action invariants over one Claim step (last' holds the claim and the record before it)
O_Forward == (last'.pst # "absent" /\ st' # "absent") =>
               (OKeyLeq(last'.pst, last'.pinc, st', inc') \/ last'.updates)
O_Stale   == (last'.pst # "absent" /\ OBelow(last'.inc, last'.kind, last'.pst, last'.pinc) /\ ~last'.updates) =>
               (st' = last'.pst /\ inc' = last'.pinc)
\* @type: ($lastc) => Bool;
OAccuses(l) == /\ isSelf /\ ~l.boot /\ ~l.pleave /\ l.pst = "alive"
               /\ \/ (l.op \in {"suspect", "dead"} /\ l.inc >= l.pinc)
                  \/ (l.op = "alive" /\ l.gate = "pass" /\ (l.inc > l.pinc \/ (l.inc = l.pinc /\ ~l.same)))
O_Refute  == OAccuses(last') => (st' = "alive" /\ inc' > last'.inc /\ inc' > last'.pinc /\ selfInc' = inc')
O_SelfInc == selfInc' >= selfInc
ClaimOnly(P) == (last' # last) => P
A_Forward == ClaimOnly(O_Forward)
A_Stale   == ClaimOnly(O_Stale)
A_Refute  == ClaimOnly(O_Refute)
A_SelfInc == O_SelfInc
=============================================================================
