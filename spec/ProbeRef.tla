------------------------------- MODULE ProbeRef -------------------------------
(***************************************************************************)
(* One probe of a target by a node (state.go probeNode, setProbeChannels,  *)
(* invokeAckHandler / invokeNackHandler; net.go handlePing,                *)
(* handleIndirectPing) as a TIMED scenario.                                *)
(*                                                                         *)
(* A scenario fixes what the network does to one probe: when (if ever) the *)
(* target's direct ack arrives, what each indirect prober does (relays an  *)
(* ack at some instant, sends a nack, stays silent), whether the TCP       *)
(* fallback succeeds, and which stray messages arrive (acks / nacks with a *)
(* foreign sequence number, duplicates, acks after the deadline).  The     *)
(* outcome is a function of the scenario:                                  *)
(*   answered  iff an ack carrying the probe's own sequence number arrives *)
(*             strictly before the deadline (= the awareness-scaled probe  *)
(*             interval), directly or relayed, or the fallback succeeded;  *)
(*   health    -1 if answered; otherwise +1 without nack-capable relays,   *)
(*             else the number of expected nacks that did not arrive;      *)
(*   the pending-probe record is gone at the deadline in every case.       *)
(* TLC enumerates every scenario over a grid of instants around the probe  *)
(* timeout and the deadline, checks the C19 clauses on the outcome         *)
(* function, and prints the scenarios; the harness plays each one against  *)
(* a real node with scripted peers in virtual time.                        *)
(***************************************************************************)
EXTENDS Integers, Sequences, FiniteSets, TLC, Json

\* abstract time: the probe timeout, the deadline (awareness-scaled probe interval) and the
\* instants at which something may arrive (never equal to PT or PI: no ties)
PT == 4
PI == 20
Grid == {2, 6, 12, 19, 22}
AwMax == 8

Never == -1
Times == Grid \cup {Never}

\* behaviour of one relay: [nackCapable, ackAt (relayed ack instant or Never), nackAt]
\* a relay that understands nacks sends one at its own probe timeout iff it did not see an ack
RelayBeh == [cap : BOOLEAN, ackAt : Times, nack : BOOLEAN]

\* scenario: [direct (arrival of the target's own ack), relays (sequence of RelayBeh),
\*            tcp ("off" | "fail" | "ok" | "late": the fallback stream answers only after the deadline),
\*            sendErr (the ping cannot even be handed to the transport: a local, non-remote error),
\*            foreignAck / foreignNack (arrival of an ack / nack with
\*            another sequence number), dupAck (the direct ack arrives twice), dupNack (every nack arrives
\*            twice: a duplicate is not a second missing-nack credit), score0]

InTime(t) == t # Never /\ t < PI

\* indirect probers are only asked after the direct wait failed (PT); a probe whose ping could not be
\* sent ends at once: nobody is asked, nobody is suspected, the health score does not move
Escalated(s) == ~s.sendErr /\ ~(s.direct # Never /\ s.direct < PT)

AckSeen(s) ==
  \/ (~s.sendErr /\ InTime(s.direct))
  \/ (Escalated(s) /\ \E i \in DOMAIN s.relays : InTime(s.relays[i].ackAt))

Answered(s) == AckSeen(s) \/ (Escalated(s) /\ s.tcp = "ok")

ExpectedNacks(s) == IF Escalated(s) THEN Cardinality({i \in DOMAIN s.relays : s.relays[i].cap}) ELSE 0
\* a nack-capable relay sends its nack at PT after it was asked (asked at PT => arrives after 2*PT);
\* it counts only while the probe's record exists (before PI)
NacksSeen(s) == IF Escalated(s)
                THEN Cardinality({i \in DOMAIN s.relays : s.relays[i].cap /\ s.relays[i].nack /\ ~InTime(s.relays[i].ackAt)
                                                             /\ 2 * PT < PI})
                ELSE 0

Delta(s) == IF s.sendErr THEN 0 ELSE IF Answered(s) THEN -1
            ELSE IF ExpectedNacks(s) > 0 THEN ExpectedNacks(s) - NacksSeen(s) ELSE 1

Clamp(x) == IF x < 0 THEN 0 ELSE IF x > AwMax - 1 THEN AwMax - 1 ELSE x
ScoreAfter(s) == Clamp(s.score0 + Delta(s))

Outcome(s) == [answered |-> Answered(s), suspect |-> ~Answered(s) /\ ~s.sendErr, delta |-> Delta(s), score |-> ScoreAfter(s),
               escalated |-> Escalated(s), expectedNacks |-> ExpectedNacks(s)]


\* ---- a node probing on another's behalf (handleIndirectPing) ----------------------
\* relay scenario: [wantNack, ackAt (instant the target's ack reaches the relay, or Never),
\*                  seqOk (the target echoes the relay's own sequence number)]
RelayTimely(r) == r.ackAt # Never /\ r.ackAt < PT /\ r.seqOk
RelayOutcome(r) == [relayedAcks |-> IF RelayTimely(r) THEN 1 ELSE 0,
                    nacks |-> IF r.wantNack /\ ~RelayTimely(r) THEN 1 ELSE 0]

\* ---- the probed side (handlePing; the ping arm of handleConn) ---------------------
\* responder scenario: [path ("udp" | "tcp"), named ("self" | "other" | "none": the node the ping names),
\*                      src ("given" | "absent": source address and node inside the ping)]
\* A ping is answered only if it names this node or nobody (a process that took over an address under
\* another name must not answer for its predecessor); the ack echoes the ping's sequence number and goes
\* to the source given inside the ping, else to the datagram's sender, on a stream over the stream.
RespOutcome(p) == [acks |-> IF p.named = "other" THEN 0 ELSE 1,
                   to   |-> IF p.named = "other" THEN "nobody"
                            ELSE IF p.path = "tcp" THEN "stream"
                            ELSE IF p.src = "given" THEN "source" ELSE "sender"]
=============================================================================
