------------------------------ MODULE TraceSusp ------------------------------
(***************************************************************************)
(* Judge of suspicion episodes recorded from the real code                 *)
(* (harness/zz_verif_susp_test.go): a real suspicion object ("unit") or a  *)
(* real Memberlist ("e2e") driven through timed arrival sequences under    *)
(* virtual time.  One line per step, times in whole milliseconds since the *)
(* first suspicion of the case began (`us` = sub-millisecond remainder).   *)
(*                                                                         *)
(* The first line of a case carries the DOCUMENTED timeouts T(0..k) for    *)
(* the configuration used, computed by spec/ref/suspicion_ref.py (the      *)
(* harness only copies them through).  The judge replays the documented    *)
(* counting rules along the recorded arrivals:                             *)
(*   a confirmation counts iff the suspicion is running, the sender is not *)
(*   the accuser, has not been seen before, and fewer than k were counted; *)
(*   declared instant = max(start + T(c), arrival of the last counted one) *)
(* and compares with what the code did.  A VERDICT is printed only when    *)
(* the recorded behaviour contradicts the property text (C06); DRIFT lines *)
(* are observations outside the property (return value of Confirm, ...).   *)
(* After the first verdict the rest of the case is skipped.                *)
(***************************************************************************)
EXTENDS Integers, Sequences, FiniteSets, TLC, Json, IOUtils, SuspRef

TraceFile == IOEnv.VERIF_TRACE
Trace == ndJsonDeserialize(TraceFile)

VARIABLES l, gcase, bad, js
tsvars == <<l, gcase, bad, js>>

Max2(a, b) == IF a >= b THEN a ELSE b

\* judge state of a case
JS0 == [status  |-> "none",    \* none | suspect | alive | deadSelf | deadOther
        start   |-> 0,         \* instant the running (or last) suspicion began
        seen    |-> {},        \* senders of confirmations during the running suspicion
        c       |-> 0,         \* confirmations the documented rules count
        lastEff |-> -1,        \* arrival of the last counted one
        stale   |-> {},        \* deadlines of timers whose suspicion is over
        tab     |-> <<0>>, wk |-> 0, wmin |-> 0, wmax |-> 0]

\* S: set of <<formula, holds>>; the formulas that do not hold
Failed(S) == {x[1] : x \in {y \in S : ~y[2]}}
Out(j, v, d) == [js |-> j, v |-> v, d |-> d]

Deadline(j) == j.start + j.tab[j.c + 1]
Expected(j) == Max2(Deadline(j), j.lastEff)

JCase(e) ==
  LET ok == Len(e.timeouts) = e.wk + 1 /\ e.wk >= 0
  IN Out([JS0 EXCEPT !.tab = IF ok THEN e.timeouts ELSE <<0>>, !.wk = IF ok THEN e.wk ELSE 0,
                     !.wmin = e.wmin, !.wmax = e.wmax],
         {}, IF ok THEN {} ELSE {"table"})

\* a suspicion begins (the observer's own evidence)
JBegin(e, j) ==
  LET begun == e.state = "suspect" /\ e.tk >= 0 /\ j.status # "suspect"
      e2e   == e.variant = "e2e"
      chk   == { <<"C06_SmallCluster", (j.wk < 1) => (e.tk < 1)>>,
                 <<"C06_MinMax", e2e => /\ ~e.tsub
                                        /\ e.members >= 1 /\ e.members <= MaxScaleN
                                        /\ e.tmin * 1000 = e.mult * ScaleTable[e.members] * e.interval
                                        /\ e.tmax = e.maxmult * e.tmin>> }
  IN IF begun
     THEN Out([j EXCEPT !.status = "suspect", !.start = e.at, !.seen = {}, !.c = 0, !.lastEff = -1],
              Failed(chk), IF e.listed THEN {} ELSE {"unlisted-at-start"})
     ELSE Out(j, {}, {"begin-ignored"})

JConfirm(e, j) ==
  IF j.status # "suspect" THEN Out(j, {}, {})
  ELSE LET eff == e.from # e.acc /\ e.from \notin j.seen /\ j.c < j.wk
           c1  == IF eff THEN j.c + 1 ELSE j.c
           chk == { <<"C06_CountOnce", (e.tn >= 0) => (e.tn = c1)>> }
       IN Out([j EXCEPT !.seen = @ \cup {e.from}, !.c = c1, !.lastEff = IF eff THEN e.at ELSE @],
              Failed(chk), IF e.ret = eff THEN {} ELSE {"confirm-ret"})

\* the observer's timer callback declared the peer dead
JFired(e, j) ==
  IF j.status # "suspect"
  THEN Out(j, {"C06_StaleHarmless"}, {})      \* no suspicion is running
  ELSE LET want  == Expected(j)
           exact == e.at = want /\ e.us = 0
           el    == e.at - j.start
           \* fired at the deadline of a timer whose suspicion is over, not at its own: that timer did it
           chk   == IF ~exact /\ e.at \in j.stale
                    THEN { <<"C06_StaleHarmless", FALSE>> }
                    ELSE { <<"C06_NotEarly", el >= j.wmin>>,
                           <<"C06_NotLate", el < j.wmax \/ (el = j.wmax /\ e.us = 0)>>,
                           <<"C06_CountOnce", e.count = j.c>>,
                           <<"C06_SmallCluster", exact \/ j.wk >= 1>>,
                           <<"C06_Schedule", exact \/ j.wk < 1>> }
       IN Out([j EXCEPT !.status = "deadSelf"], Failed(chk), IF e.by = e.acc THEN {} ELSE {"declared-by"})

JRefute(e, j) ==
  IF e.state = "alive"
  THEN Out([j EXCEPT !.status = "alive", !.stale = IF j.status = "suspect" THEN @ \cup {Deadline(j)} ELSE @], {}, {})
  ELSE Out(j, {}, {"refutation-not-accepted"})

JKill(e, j) ==
  IF j.status = "suspect" /\ e.state = "dead"
  THEN Out([j EXCEPT !.status = "deadOther", !.stale = @ \cup {Deadline(j)}], {}, {})
  ELSE Out(j, {}, {})

\* the member list seen by the driver
JLook(e, j) ==
  LET el == e.at - j.start
      chk == IF j.status = "suspect"
             THEN { <<"C06_NotLate", (el > j.wmax) => ~e.listed>>,
                    <<"C06_NotEarly", (el < j.wmin) => e.listed>> }
             ELSE IF j.status = "alive"
             THEN { <<"C06_RefuteStays", e.listed>> }
             ELSE {}
  IN Out(j, Failed(chk), {})

\* a leave event for the peer while the suspicion is still running and nobody declared anything
JLeave(e, j) ==
  IF j.status = "suspect"
  THEN Out(j, Failed({ <<"C06_NotEarly", e.at - j.start >= j.wmin>> }), {"leave-without-declaration"})
  ELSE Out(j, {}, {})

Judge(e, j) ==
  CASE e.act = "case" -> JCase(e)
    [] e.act \in {"start", "resuspect"} -> JBegin(e, j)
    [] e.act = "confirm" -> JConfirm(e, j)
    [] e.act = "fired" -> JFired(e, j)
    [] e.act = "refute" -> JRefute(e, j)
    [] e.act = "kill" -> JKill(e, j)
    [] e.act \in {"poll", "end"} -> JLook(e, j)
    [] e.act = "leave" -> JLeave(e, j)
    [] OTHER -> Out(j, {}, {})        \* stalefired: the callback of an old timer decided to do nothing

TInit == l = 1 /\ gcase = -1 /\ bad = FALSE /\ js = JS0

TStep ==
  /\ l <= Len(Trace)
  /\ LET e     == Trace[l]
         fresh == e.case # gcase
     IN /\ gcase' = e.case
        /\ IF ~fresh /\ bad
           THEN UNCHANGED <<bad, js>>
           ELSE LET r == Judge(e, IF fresh THEN JS0 ELSE js)
                IN /\ \A f \in r.v : PrintT(<<"VERDICT", f, l, e.case, e.i>>)
                   /\ \A f \in r.d : PrintT(<<"DRIFT", f, l, e.case, e.i>>)
                   /\ js' = r.js
                   /\ bad' = (r.v # {})
  /\ l' = l + 1

TDone == /\ l = Len(Trace) + 1
         /\ PrintT(<<"DONE", Len(Trace)>>)
         /\ l' = l + 1 /\ UNCHANGED <<gcase, bad, js>>

TSpec == TInit /\ [][TStep \/ TDone]_tsvars
=============================================================================
