------------------------------- MODULE MLCore -------------------------------
(***************************************************************************)
(* The membership rules of hashicorp/memberlist, transcribed statement by  *)
(* statement from state.go: aliveNode, suspectNode, deadNode, refute,      *)
(* mergeState, the suspicion-timer callback and resetNodes.                *)
(*                                                                         *)
(* Every operator is a pure function from the part of the node's view the  *)
(* critical section reads to the part it writes plus everything observable *)
(* it emits (queued broadcasts, delegate events, conflict callback, health *)
(* delta).  The same operators serve                                       *)
(*   - the bounded models (MemberView, Cluster), where values are abstract,*)
(*   - the trace specifications, where values are the concrete ones logged *)
(*     by the hooks (addresses and metadata as strings, time in ms).       *)
(* Nothing here depends on the type of names, addresses or metadata.       *)
(***************************************************************************)
EXTENDS Integers, Sequences, FiniteSets, SuspRef

\* Sentinels have the same shape as the real values, so that TLC never has to
\* compare values of different kinds.
ZeroTime == -1          \* Go's zero time.Time (a record that was never stamped)
Infinity == 2000000000  \* "longer than any configured duration" (TLC ints are 32 bit)

NoRec   == [state |-> "absent", inc |-> 0, addr |-> "", port |-> 0, meta |-> "",
            vsn |-> <<>>, changed |-> 0]
NoTimer == [on |-> FALSE, k |-> 0, min |-> 0, max |-> 0, start |-> 0,
            conf |-> {}, n |-> 0]
Zero6   == <<0, 0, 0, 0, 0, 0>>

IsAbsent(r) == r.state = "absent"
DeadOrLeft(r) == r.state \in {"dead", "left"}
Listed(r)   == r.state \in {"alive", "suspect"}

Max2(a, b) == IF a >= b THEN a ELSE b
Min2(a, b) == IF a <= b THEN a ELSE b

\* time.Since(t): the zero time is infinitely long ago
Since(now, t) == IF t = ZeroTime THEN Infinity ELSE now - t

\* SWIM precedence
Rank(s) == CASE s = "alive" -> 0 [] s = "suspect" -> 1 [] OTHER -> 2

First6(v) == SubSeq(v, 1, 6)

-----------------------------------------------------------------------------
(* Output of one critical section. *)
Out(rec, timer, selfInc, nn, bcast, events, conflict, health) ==
  [rec |-> rec, timer |-> timer, selfInc |-> selfInc, nn |-> nn, bcast |-> bcast,
   events |-> events, conflict |-> conflict, health |-> health]

(* x: what the critical section reads.                                     *)
(*   self     local node name                                              *)
(*   now      current time                                                 *)
(*   rec      record of the claim's subject (NoRec if unknown)             *)
(*   timer    suspicion timer entry of the subject (NoTimer if none)       *)
(*   selfInc  the node's own incarnation counter (atomic, not the record)  *)
(*   leave    the leave flag                                               *)
(*   nn       the numNodes estimate                                        *)
(*   allowed  does IPAllowed accept the claim's address                    *)
(*   veto     would the alive delegate reject this claim                   *)
(*   cfg      [reclaim, aliveDelegate, mult, maxMult, interval]            *)
NoChange(x) == Out(x.rec, x.timer, x.selfInc, x.nn, <<>>, <<>>, FALSE, 0)

Bcast(key, type, node, inc, from, addr, port, meta, vsn, notify) ==
  [key |-> key, type |-> type, node |-> node, inc |-> inc, from |-> from, addr |-> addr,
   port |-> port, meta |-> meta, vsn |-> vsn, notify |-> notify]

Event(kind, name, r) ==
  [kind |-> kind, name |-> name, addr |-> r.addr, port |-> r.port, meta |-> r.meta]

\* refute(): inc := next(); if accused >= inc then inc := skip(accused - inc + 1)
RefuteInc(selfInc, accused) == Max2(selfInc, accused) + 1

\* The alive message refute() queues.  Its queue key is the address string, not
\* the node name (state.go: encodeAndBroadcast(me.Addr.String(), ...)).
RefuteBcast(self, r, inc) ==
  Bcast(r.addr, "alive", self, inc, "", r.addr, r.port, r.meta, r.vsn, FALSE)

\* suspicionTimeout(mult, n, interval) = mult * floor(1000 * nodeScale(n)) * interval / 1000;
\* the scale comes from the independent reference table (module SuspRef)
NodeScale1000(n) == IF n < 1 THEN 1000 ELSE IF n <= MaxScaleN THEN ScaleTable[n] ELSE ScaleTable[MaxScaleN]
SuspMin(cfg, n) == (cfg.mult * NodeScale1000(n) * cfg.interval) \div 1000

-----------------------------------------------------------------------------
BadVsn(v) == Len(v) >= 3 /\ (v[1] = 0 \/ v[2] = 0 \/ v[1] > v[2])

(* aliveNode(a, notify, bootstrap) *)
ApplyAlive(x, a, bootstrap, notify) ==
  LET self    == x.self
      r0      == x.rec
      isNew   == IsAbsent(r0)
      isLocal == a.node = self
      addrDiff == ~isNew /\ (r0.addr # a.addr \/ r0.port # a.port)
      canReclaim == x.cfg.reclaim > 0 /\ Since(x.now, r0.changed) > x.cfg.reclaim
      updates == addrDiff /\ (r0.state = "left" \/ (r0.state = "dead" /\ canReclaim))
      base    == IF isNew
                 THEN [state |-> "dead", inc |-> 0, addr |-> a.addr, port |-> a.port,
                       meta |-> a.meta,
                       vsn |-> IF Len(a.vsn) > 5 THEN First6(a.vsn) ELSE Zero6,
                       changed |-> ZeroTime]
                 ELSE r0
      nn1     == IF isNew THEN x.nn + 1 ELSE x.nn
  IN
  IF x.leave /\ isLocal THEN NoChange(x)
  ELSE IF BadVsn(a.vsn) THEN NoChange(x)
  ELSE IF x.cfg.aliveDelegate /\ (Len(a.vsn) < 6 \/ x.veto) THEN NoChange(x)
  ELSE IF (isNew \/ addrDiff) /\ ~x.allowed THEN NoChange(x)
  ELSE IF addrDiff /\ ~updates THEN [NoChange(x) EXCEPT !.conflict = TRUE]
  ELSE IF (a.inc <= base.inc /\ ~isLocal /\ ~updates) \/ (a.inc < base.inc /\ isLocal)
       THEN Out(base, x.timer, x.selfInc, nn1, <<>>, <<>>, FALSE, 0)   \* a new name leaves a phantom dead record
  ELSE IF ~bootstrap /\ isLocal
       THEN IF a.inc = base.inc /\ a.meta = base.meta /\ a.vsn = base.vsn
            THEN Out(base, NoTimer, x.selfInc, nn1, <<>>, <<>>, FALSE, 0)
            ELSE LET ni == RefuteInc(x.selfInc, a.inc)
                     nr == [base EXCEPT !.inc = ni]
                 IN Out(nr, NoTimer, ni, nn1, <<RefuteBcast(self, nr, ni)>>,
                        IF DeadOrLeft(base) THEN <<Event("join", a.node, nr)>> ELSE <<>>,
                        FALSE, 1)
  ELSE LET nr == [state |-> "alive", inc |-> a.inc, addr |-> a.addr, port |-> a.port,
                  meta |-> a.meta,
                  vsn |-> IF Len(a.vsn) >= 6 THEN First6(a.vsn) ELSE base.vsn,
                  changed |-> IF base.state # "alive" THEN x.now ELSE base.changed]
       IN Out(nr, NoTimer, x.selfInc, nn1,
              <<Bcast(a.node, "alive", a.node, a.inc, "", a.addr, a.port, a.meta, a.vsn, notify)>>,
              IF DeadOrLeft(base) THEN <<Event("join", a.node, nr)>>
              ELSE IF base.meta # nr.meta THEN <<Event("update", a.node, nr)>> ELSE <<>>,
              FALSE, 0)

(* suspectNode(s) *)
ApplySuspect(x, s) ==
  LET r0 == x.rec
      t0 == x.timer
  IN
  IF IsAbsent(r0) \/ s.inc < r0.inc THEN NoChange(x)
  ELSE IF t0.on
       THEN IF t0.n < t0.k /\ s.from \notin t0.conf
            THEN Out(r0, [t0 EXCEPT !.conf = @ \cup {s.from}, !.n = @ + 1], x.selfInc, x.nn,
                     <<Bcast(s.node, "suspect", s.node, s.inc, s.from, "", 0, "", <<>>, FALSE)>>,
                     <<>>, FALSE, 0)
            ELSE NoChange(x)
  ELSE IF r0.state # "alive" THEN NoChange(x)
  ELSE IF s.node = x.self
       THEN IF x.leave THEN NoChange(x)      \* a leaving node does not refute (its departure must not become stale)
            ELSE
            LET ni == RefuteInc(x.selfInc, s.inc)
                nr == [r0 EXCEPT !.inc = ni]
            IN Out(nr, t0, ni, x.nn, <<RefuteBcast(x.self, nr, ni)>>, <<>>, FALSE, 1)
  ELSE LET k0  == x.cfg.mult - 2
           k   == IF x.nn - 2 < k0 THEN 0 ELSE k0
           min == SuspMin(x.cfg, x.nn)
           \* (the code multiplies the unrounded minimum: one division at the end)
           max == (x.cfg.maxMult * x.cfg.mult * NodeScale1000(x.nn) * x.cfg.interval) \div 1000
       IN Out([r0 EXCEPT !.inc = s.inc, !.state = "suspect", !.changed = x.now],
              [on |-> TRUE, k |-> k, min |-> min, max |-> max,
               start |-> x.now, conf |-> {s.from}, n |-> 0],
              x.selfInc, x.nn,
              <<Bcast(s.node, "suspect", s.node, s.inc, s.from, "", 0, "", <<>>, FALSE)>>,
              <<>>, FALSE, 0)

(* deadNode(d) *)
ApplyDead(x, d) ==
  LET r0 == x.rec
  IN
  IF IsAbsent(r0) \/ d.inc < r0.inc THEN NoChange(x)
  ELSE IF DeadOrLeft(r0) THEN Out(r0, NoTimer, x.selfInc, x.nn, <<>>, <<>>, FALSE, 0)
  ELSE IF d.node = x.self /\ ~x.leave
       THEN LET ni == RefuteInc(x.selfInc, d.inc)
                nr == [r0 EXCEPT !.inc = ni]
            IN Out(nr, NoTimer, ni, x.nn, <<RefuteBcast(x.self, nr, ni)>>, <<>>, FALSE, 1)
  ELSE LET nr == [r0 EXCEPT !.inc = d.inc,
                            !.state = IF d.node = d.from THEN "left" ELSE "dead",
                            !.changed = x.now]
       IN Out(nr, NoTimer, x.selfInc, x.nn,
              <<Bcast(d.node, "dead", d.node, d.inc, d.from, "", 0, "", <<>>, d.node = x.self)>>,
              <<Event("leave", d.node, nr)>>, FALSE, 0)

(* mergeState: one remote entry r = [name, state, inc, addr, port, meta, vsn] *)
MergeClaim(self, r) ==
  CASE r.state = "alive" -> [op |-> "alive",
                              msg |-> [node |-> r.name, inc |-> r.inc, from |-> "", addr |-> r.addr,
                                       port |-> r.port, meta |-> r.meta, vsn |-> r.vsn, kind |-> "alive"]]
    [] r.state = "left"  -> [op |-> "dead",
                              msg |-> [node |-> r.name, inc |-> r.inc, from |-> r.name, addr |-> "",
                                       port |-> 0, meta |-> "", vsn |-> <<>>, kind |-> "left"]]
    [] OTHER             -> [op |-> "suspect",
                              msg |-> [node |-> r.name, inc |-> r.inc, from |-> self, addr |-> "",
                                       port |-> 0, meta |-> "", vsn |-> <<>>, kind |-> r.state]]

Apply(x, op, msg, bootstrap, notify) ==
  CASE op = "alive"   -> ApplyAlive(x, msg, bootstrap, notify)
    [] op = "suspect" -> ApplySuspect(x, msg)
    [] op = "dead"    -> ApplyDead(x, msg)

(* The suspicion callback: decide under the lock, then deadNode.            *)
(* id is the StateChange instant the timer was created for.                 *)
TimerDecision(r, id) == ~IsAbsent(r) /\ r.state = "suspect" /\ r.changed = id
TimerDeadMsg(self, name, r) == [node |-> name, inc |-> r.inc, from |-> self, addr |-> "",
                                port |-> 0, meta |-> "", vsn |-> <<>>, kind |-> "dead"]

(* resetNodes: which records are removed (never the local node's own record) *)
Reaped(r, now, gossipDead) == DeadOrLeft(r) /\ Since(now, r.changed) > gossipDead

(* verifyProtocol, literally.  local: set of [state, vsn(6)];  remote: sequence of [state, vsn] *)
RECURSIVE SeqMaxOf(_, _, _), SeqMinOf(_, _, _)
SeqMaxOf(s, i, acc) == IF i > Len(s) THEN acc ELSE SeqMaxOf(s, i + 1, Max2(acc, s[i]))
SeqMinOf(s, i, acc) == IF i > Len(s) THEN acc ELSE SeqMinOf(s, i + 1, Min2(acc, s[i]))

VersionsCompatible(localSeq, remoteSeq) ==
  LET remAlive == SelectSeq(remoteSeq, LAMBDA e : e.state = "alive" /\ Len(e.vsn) >= 5)
      locAlive == SelectSeq(localSeq, LAMBDA e : e.state = "alive")
      col(sq, i) == [j \in 1..Len(sq) |-> sq[j].vsn[i]]
      maxpmin == SeqMaxOf(col(locAlive, 1), 1, SeqMaxOf(col(remAlive, 1), 1, 0))
      minpmax == SeqMinOf(col(locAlive, 2), 1, SeqMinOf(col(remAlive, 2), 1, 255))
      maxdmin == SeqMaxOf(col(locAlive, 4), 1, SeqMaxOf(col(remAlive, 4), 1, 0))
      mindmax == SeqMinOf(col(locAlive, 5), 1, SeqMinOf(col(remAlive, 5), 1, 255))
      pcur(e) == IF Len(e.vsn) >= 6 THEN e.vsn[3] ELSE 0
      dcur(e) == IF Len(e.vsn) >= 6 THEN e.vsn[6] ELSE 0
      ok(e)   == pcur(e) >= maxpmin /\ pcur(e) <= minpmax /\ dcur(e) >= maxdmin /\ dcur(e) <= mindmax
  IN (\A i \in 1..Len(remoteSeq) : ok(remoteSeq[i])) /\ (\A i \in 1..Len(localSeq) : ok(localSeq[i]))
=============================================================================
