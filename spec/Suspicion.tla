------------------------------ MODULE Suspicion ------------------------------
(***************************************************************************)
(* Timed bounded model of the Lifeguard suspicion timer of one observer    *)
(* about one peer (suspicion.go, suspectNode and its timer callback in     *)
(* state.go), DESIGN.md 3.4 / 5 C06.                                       *)
(*                                                                         *)
(* Time is an integer clock `now` (abstract milliseconds).  A timer that   *)
(* is due is urgent: neither Tick nor any arrival is enabled while a timer *)
(* (the current one or a cancelled-but-still-armed old one) is due, so an  *)
(* arrival never ties with a deadline.  Arrivals happen at the instants of *)
(* Grid only; Tick moves to the next grid instant or the next armed        *)
(* deadline, whichever comes first.                                        *)
(*                                                                         *)
(* Timeout[k][c] is the DOCUMENTED schedule (total timeout from the start  *)
(* of the suspicion after c accepted confirmations out of k expected); it  *)
(* is a constant computed by the independent reference                     *)
(* spec/ref/suspicion_ref.py (module SuspTimeouts), never by the Go code.  *)
(*                                                                         *)
(* The actions are implementation shaped:                                  *)
(*   Start            suspectNode with the observer's own evidence         *)
(*   Confirm(f)       a suspect message from f while the timer exists      *)
(*   Fire             the Go timer of the current suspicion expires        *)
(*   Refuted          an alive message with a newer incarnation: the map   *)
(*                    entry is deleted, the Go timer is NOT stopped        *)
(*   ReSuspect        a new suspicion while old timers are still armed     *)
(*   StaleFire        an old timer expires: the callback compares the      *)
(*                    record's state-change stamp with the one it captured *)
(*   KilledByOther    a dead message from another node                     *)
(* `hist` is the timed sequence of arrivals (what a driver has to do to    *)
(* reproduce the behaviour on the real code); the generator configuration  *)
(* prints it whenever an episode ends.                                     *)
(***************************************************************************)
EXTENDS Integers, Sequences, FiniteSets, TLC, Json

CONSTANTS Ks,           \* values of k explored (subset of DOMAIN Timeout)
          Min, Max,     \* abstract milliseconds
          Timeout,      \* [k -> [0..k -> total timeout]]
          Grid,         \* instants at which messages may arrive
          Horizon,      \* the clock stops here
          Accuser,      \* name of the observer itself (the original accuser)
          Senders,      \* names a confirmation may come from (contains Accuser)
          MaxActs,      \* bound on the number of arrivals after Start
          MaxEpisodes,  \* bound on the number of suspicions
          DumpOn

VARIABLES now,
          state,        \* "idle" | "suspect" | "alive" | "dead"
          k,            \* expected confirmations (fixed by cluster size and SuspicionMult)
          start,        \* instant the current (or last) suspicion began
          conf,         \* the timer's confirmation map: accuser + counted confirmers
          n,            \* the timer's confirmation counter
          deadline,     \* instant the current Go timer is armed for (-1: none)
          declaredAt, declaredBy,
          stale,        \* armed timers of suspicions that are over: set of [dl, stamp]
          hist,
          \* ghosts, used by the properties only
          seen,         \* every sender of a confirmation during the current suspicion
          lastEff,      \* arrival instant of the last confirmation the documented rules count
          episodes, last

svars == <<now, state, k, start, conf, n, deadline, declaredAt, declaredBy, stale, hist, seen, lastEff, episodes, last>>

Min2(a, b) == IF a <= b THEN a ELSE b
Max2(a, b) == IF a >= b THEN a ELSE b
SetMin(S) == CHOOSE x \in S : \A y \in S : x <= y

Act(act, from) == [at |-> now, act |-> act, from |-> from]
Acts == Len(hist) - 1

SInit == /\ now = 0 /\ state = "idle" /\ k \in Ks /\ start = -1 /\ conf = {} /\ n = 0 /\ deadline = -1
         /\ declaredAt = -1 /\ declaredBy = "" /\ stale = {} /\ hist = <<>> /\ seen = {} /\ lastEff = -1
         /\ episodes = 0 /\ last = "init"

Due == (state = "suspect" /\ deadline = now) \/ (\E s \in stale : s.dl = now)

\* a message can arrive now
Arrival == ~Due /\ now \in Grid /\ Acts < MaxActs

Begin(act) ==
  /\ state' = "suspect" /\ start' = now /\ conf' = {Accuser} /\ n' = 0
  /\ deadline' = now + Timeout[k][0]      \* k < 1: Timeout[0][0] = Min
  /\ seen' = {} /\ lastEff' = -1 /\ episodes' = episodes + 1
  /\ hist' = Append(hist, Act(act, Accuser)) /\ last' = act
  /\ UNCHANGED <<now, k, declaredAt, declaredBy, stale>>

Start == state = "idle" /\ Begin("start")

\* Two suspicions of the same peer never begin at the same clock reading (the callback
\* identifies its suspicion by the state-change stamp): now > start.
ReSuspect == state = "alive" /\ Arrival /\ now > start /\ episodes < MaxEpisodes /\ Begin("resuspect")

Confirm(f) ==
  /\ state = "suspect" /\ Arrival
  /\ seen' = seen \cup {f}
  /\ hist' = Append(hist, Act("confirm", f))
  /\ IF n >= k \/ f \in conf
     THEN /\ last' = "confirm"
          /\ UNCHANGED <<state, conf, n, deadline, declaredAt, declaredBy, lastEff>>
     ELSE LET n1 == n + 1
              dl == start + Timeout[k][n1]
          IN /\ conf' = conf \cup {f} /\ n' = n1 /\ lastEff' = now
             /\ IF dl <= now      \* the pending timer is stopped and the callback runs at once
                THEN /\ state' = "dead" /\ declaredAt' = now /\ declaredBy' = "self" /\ deadline' = -1
                     /\ last' = "confirmfire"
                ELSE /\ deadline' = dl /\ last' = "confirm"
                     /\ UNCHANGED <<state, declaredAt, declaredBy>>
  /\ UNCHANGED <<now, k, start, stale, episodes>>

Fire ==
  /\ state = "suspect" /\ deadline = now
  /\ state' = "dead" /\ declaredAt' = now /\ declaredBy' = "self" /\ deadline' = -1 /\ last' = "fire"
  /\ UNCHANGED <<now, k, start, conf, n, stale, hist, seen, lastEff, episodes>>

Refuted ==
  /\ state = "suspect" /\ Arrival
  /\ state' = "alive" /\ conf' = {} /\ n' = 0 /\ deadline' = -1
  /\ stale' = stale \cup {[dl |-> deadline, stamp |-> start]}
  /\ hist' = Append(hist, Act("refute", "")) /\ last' = "refute"
  /\ UNCHANGED <<now, k, start, declaredAt, declaredBy, seen, lastEff, episodes>>

KilledByOther ==
  /\ state = "suspect" /\ Arrival
  /\ state' = "dead" /\ declaredAt' = now /\ declaredBy' = "other" /\ deadline' = -1
  /\ stale' = stale \cup {[dl |-> deadline, stamp |-> start]}
  /\ hist' = Append(hist, Act("kill", "")) /\ last' = "kill"
  /\ UNCHANGED <<now, k, start, conf, n, seen, lastEff, episodes>>

\* the callback of an old timer: it declares the peer dead only when the record is
\* still suspect with the state-change stamp the callback captured
StaleFire ==
  \E s \in stale :
    /\ s.dl = now
    /\ stale' = stale \ {s}
    /\ last' = "stalefire"
    /\ IF state = "suspect" /\ start = s.stamp
       THEN /\ state' = "dead" /\ declaredAt' = now /\ declaredBy' = "self" /\ deadline' = -1
       ELSE UNCHANGED <<state, declaredAt, declaredBy, deadline>>
    /\ UNCHANGED <<now, k, start, conf, n, hist, seen, lastEff, episodes>>

Tick ==
  /\ ~Due /\ now < Horizon
  /\ state \in {"suspect", "alive"} \/ stale # {}
  /\ LET stops == {g \in Grid : g > now} \cup {Horizon}
                  \cup (IF state = "suspect" THEN {deadline} ELSE {}) \cup {s.dl : s \in stale}
     IN now' = SetMin({x \in stops : x > now})
  /\ last' = "tick"
  /\ UNCHANGED <<state, k, start, conf, n, deadline, declaredAt, declaredBy, stale, hist, seen, lastEff, episodes>>

SNext == Start \/ ReSuspect \/ (\E f \in Senders : Confirm(f)) \/ Fire \/ Refuted \/ KilledByOther \/ StaleFire \/ Tick

SSpec == SInit /\ [][SNext]_svars

-----------------------------------------------------------------------------
\* C06 on the model.  declaredBy = "self": the observer's own timer declared the peer dead.

C06_NotEarly  == declaredBy = "self" => declaredAt - start >= Min
C06_NotLate   == state = "suspect" => now - start <= Max
C06_Schedule  == declaredBy = "self" => declaredAt = Max2(start + Timeout[k][n], lastEff)
C06_CountOnce == (state = "suspect" \/ declaredBy = "self") => n = Min2(k, Cardinality(seen \ {Accuser}))
C06_SmallCluster == (state = "suspect" /\ k < 1) => deadline = start + Min
C06_StaleHarmless ==
  [][ last' = "stalefire" => UNCHANGED <<state, start, conf, n, deadline, declaredAt, declaredBy>> ]_svars

\* sanity of the model itself
TypeOK == /\ state \in {"idle", "suspect", "alive", "dead"}
          /\ (state = "suspect") => (deadline > now \/ (deadline = now /\ Due))
          /\ \A s \in stale : s.dl >= now

\* generator: print the arrival sequence whenever an episode has just ended
Ended == last \in {"fire", "confirmfire", "refute", "kill"}
SDump == (DumpOn /\ Ended) => PrintT(<<"E", ToJson([k |-> k, acts |-> hist])>>)
=============================================================================
