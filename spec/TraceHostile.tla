----------------------------- MODULE TraceHostile -----------------------------
(***************************************************************************)
(* Judge of hostile inputs fired at a real node (one line per concrete     *)
(* input of a class of module Hostile, or per byte campaign on a genuine   *)
(* frame).  C13 clauses on what the node really did.                       *)
(***************************************************************************)
EXTENDS Integers, Sequences, TLC, Json, IOUtils

TraceFile == IOEnv.VERIF_TRACE
Trace == ndJsonDeserialize(TraceFile)
VARIABLES l
Report(kind, name, e, ok) == IF ok THEN TRUE ELSE PrintT(<<kind, name, l, e.case, 0>>)

ReadAhead == 4096    \* the stream reader's buffer: the most a node may take beyond a declaring header
Slack == 200         \* ms

JudgeClass(e) ==
  /\ Report("VERDICT", "C13_NoPanic", e, e.panic = "")
  \* none of the enumerated classes can be decoded into a message: membership and delegates stay untouched
  /\ Report("VERDICT", "C13_Untouched", e, e.defect = "flood" \/ ~e.changed)
  \* a declared size beyond a cap is refused on the declaring header: nothing after it is consumed
  /\ Report("VERDICT", "C13_CapBeforeRead", e,
            (e.path = "stream" /\ e.oversize /\ e.headerLen > 0) => e.accepted <= e.headerLen + ReadAhead)
  \* the stream handler always ends: the node closes the stream within its stream timeout
  /\ Report("VERDICT", "C13_NoHang", e, (e.path = "stream" /\ e.panic = "") => (e.closedMs >= 0 /\ e.closedMs <= e.timeoutMs + Slack))
  /\ Report("VERDICT", "C13_ErrReplyOnly", e, e.reply \in {"none", "err"})
  \* the handoff queue never holds more than its configured depth
  /\ Report("VERDICT", "C13_QueueCap", e, e.defect = "flood" => (e.qmax <= e.qcap /\ e.qcap > 0))
  /\ PrintT(<<"STAT2", "C13_" \o e.layer \o "_" \o e.defect, 1, 1>>)

\* byte campaigns (every truncation, single-byte mutations of a genuine frame)
JudgeCampaign(e) ==
  /\ Report("VERDICT", "C13_NoPanic", e, e.panic = "")
  \* with incoming verification on, no modified or truncated copy of genuine ciphertext has any effect
  \* (the unauthenticated version byte is counted apart: known finding F4, judged under C14)
  /\ Report("VERDICT", "C13_TamperedCiphertext", e,
            (Len(e.r.keys) > 0 /\ e.r.vin /\ Len(e.s.keys) > 0 /\ e.s.vout) => (e.actedMut = 0 /\ e.changedMut = 0))
  /\ PrintT(<<"STAT2", "C13_campaign_inputs", e.injected, 1>>)

TInit == l = 1
TStep == /\ l <= Len(Trace)
         /\ (IF Trace[l].ev = "WireCase" THEN JudgeCampaign(Trace[l]) ELSE JudgeClass(Trace[l]))
         /\ l' = l + 1
TDone == l = Len(Trace) + 1 /\ PrintT(<<"DONE", Len(Trace)>>) /\ l' = l + 1
TSpec == TInit /\ [][TStep \/ TDone]_l
=============================================================================
