-------------------------------- MODULE Wire --------------------------------
(***************************************************************************)
(* Bounded model over module WireRef: every sender configuration x receiver*)
(* configuration x message class x path x attack is one step from the      *)
(* initial state.  TLC checks the C12 / C14 / C15 / C16 predicates on every*)
(* case and, in the generator configurations, prints the cases for         *)
(* execution between two real nodes.                                       *)
(***************************************************************************)
EXTENDS WireRef

CONSTANTS Labels,      \* label values, "" = none
          Keys,        \* key ids
          SCfgs, RCfgs, \* sender / receiver configurations
          Attacks      \* attack kinds, "none" = genuine traffic

VARIABLES cas
Paths == {"packet", "stream"}
PacketMsgs == {"user", "alive", "ping", "compound", "indirect"}
StreamMsgs == {"userstream", "pushpull", "tcpping"}
Msgs == PacketMsgs \cup StreamMsgs

WInit == cas = [kind |-> "none"]
K0 == CHOOSE k \in Keys : TRUE
WNext == /\ cas.kind = "none"      \* every case is one step from the initial state
         /\ \E p \in Paths : \E m \in (IF p = "packet" THEN PacketMsgs ELSE StreamMsgs) :
            \E pc \in (IF p = "stream" THEN {FALSE} ELSE BOOLEAN) :      \* streams carry no checksum
            \E s \in SCfgs :
            \E sh \in (IF s.comp /\ p = "packet" THEN BOOLEAN ELSE {TRUE}) : \* streams: always compressed when enabled
            \E a \in Attacks :
            \E fk \in (IF a = "foreignkey" THEN Keys \ KeySet(s) ELSE {K0}) :
            \E ol \in (IF a = "relabel" THEN Labels \ {s.label} ELSE {""}) :
            \E r \in RCfgs :
              LET f0 == Send(s, m, p, pc, sh)
                  f  == Tamper(f0, a, fk, ol)
                  x  == Recv(r, f)
              IN cas' = [kind |-> "case", s |-> s, r |-> r, msg |-> m, path |-> p, peerCrc |-> pc, shrinks |-> sh,
                         attack |-> a, foreignKey |-> fk, otherLabel |-> ol,
                         sent |-> f0, wire |-> f, acc |-> x.acc, why |-> x.why, got |-> x.msg,
                         compatible |-> Compatible(s, r, a)]
WSpec == WInit /\ [][WNext]_cas

\* properties on every case
P_C12 == cas.kind = "case" => C12_RoundTrip(cas.s, cas.r, cas.msg, cas.attack, cas.wire)
P_C15 == cas.kind = "case" => C15_Sealed(cas.s, cas.sent)
P_C16 == cas.kind = "case" => C16_Isolated(cas.s, cas.r, cas.wire)
\* the version byte is not authenticated: known finding F4 (see DESIGN.md §6); every other
\* modification is covered
Known_F4(c) == c.attack = "version" /\ c.why = "version-flipped"
P_C14 == cas.kind = "case" => (Known_F4(cas) \/ C14_OnlyAuthentic(cas.r, cas.wire, cas.msg))

WDump == (cas.kind = "case") => PrintT(<<"E", ToJson(cas)>>)
=============================================================================
