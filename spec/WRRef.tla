------------------------------- MODULE WRRef -------------------------------
(***************************************************************************)
(* A live node whose keyring is rotated while traffic arrives and leaves   *)
(* (net.go ingestPacket / readStream / rawSendMsgPacket / rawSendMsgStream *)
(* consult config.Keyring at every message).  Reference meaning:           *)
(*   Accepts   the node acts on a message sealed under key k iff k is one  *)
(*             of the keys installed NOW (whatever was installed, used or  *)
(*             accepted before); plaintext is acted on only when nothing   *)
(*             is installed or incoming verification is off;               *)
(*   SealKey   what the node hands to its transport is sealed under the    *)
(*             primary key of NOW (plaintext when nothing is installed or  *)
(*             outgoing verification is off).                              *)
(* Keys and rings are those of KRRef (ring = sequence, first = primary).   *)
(***************************************************************************)
EXTENDS KRRef

Plain == Key("plain", 0)          \* traffic that is not encrypted at all

Accepts(ring, vin, k) == IF k = Plain THEN (ring = <<>> \/ ~vin) ELSE k \in KRange(ring)
SealKey(ring, vout)   == IF ring = <<>> \/ ~vout THEN Plain ELSE ring[1]

\* clauses on one observed message
C14_CurrentKeys(ring, vin, k, acted) == (ring # <<>> /\ vin /\ acted) => k \in KRange(ring)
C17_NodeUsable(ring, k, acted)       == (k # Plain /\ k \in KRange(ring)) => acted
C15_PrimaryNow(ring, vout, seal)     == (ring # <<>> /\ vout) => seal = ring[1]
=============================================================================
