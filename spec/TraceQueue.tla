------------------------------ MODULE TraceQueue ------------------------------
(***************************************************************************)
(* Judge of operation sequences recorded from the real TransmitLimitedQueue*)
(* (one line per call: arguments, returned broadcasts, completion callbacks*)
(* in call order, NumQueued afterwards, panic).  The reference state of    *)
(* BcastQueue is stepped along the recorded calls; every C10 clause is     *)
(* evaluated on every line.  After the first verdict in a sequence the rest*)
(* of that sequence is skipped (reference and object have parted).         *)
(***************************************************************************)
EXTENDS BQRef, IOUtils

TraceFile == IOEnv.VERIF_TRACE
Trace == ndJsonDeserialize(TraceFile)

VARIABLES l, ritems, rclock, rdone, gcase, bad
tqvars == <<l, ritems, rclock, rdone, gcase, bad>>

Report(kind, name, e, ok) == IF ok THEN TRUE ELSE PrintT(<<kind, name, l, e.case, e.i>>)

Uids(S) == {i.uid : i \in S}
NoDups(s) == \A i, j \in DOMAIN s : s[i] = s[j] => i = j
Max0(a, b) == IF a >= b THEN a ELSE b

ItemOf(S, u) == CHOOSE i \in S : i.uid = u
RECURSIVE SumLen(_, _, _, _)
SumLen(S, res, i, overhead) == IF i > Len(res) THEN 0 ELSE ItemOf(S, res[i]).len + overhead + SumLen(S, res, i + 1, overhead)

\* returns <<ok, items', done-set>> after printing verdicts
JudgeQ(e, S, c0) ==
  LET b == [uid |-> e.uid, kind |-> e.kind, name |-> e.name, len |-> e.len]
      v == Victims(S, b)
      S1 == (S \ v) \cup {[uid |-> e.uid, kind |-> e.kind, name |-> e.name, len |-> e.len, tr |-> 0, stamp |-> c0 + 1]}
      ok == /\ Report("VERDICT", "C10_Completion", e, SeqToSet(e.done) = Uids(v) /\ NoDups(e.done))
            /\ Report("VERDICT", "C10_NoLoss", e, e.nq = Cardinality(S1))
  IN <<ok, S1>>

JudgeG(e, S) ==
  LET r == GetRef(S, e.overhead, e.limit, e.mult, e.n)
      want == [i \in DOMAIN r.picked |-> r.picked[i].uid]
      known == \A i \in DOMAIN e.res : e.res[i] \in Uids(S)
      ok == /\ Report("VERDICT", "C10_Budget", e, (~known) \/ e.res = <<>> \/ SumLen(S, e.res, 1, e.overhead) <= e.limit)
            /\ Report("VERDICT", "C10_Preference", e, e.res = want)
            /\ Report("VERDICT", "C10_Completion", e, e.done = r.done)
            /\ Report("VERDICT", "C10_NoLoss", e, e.nq = Cardinality(r.items))
  IN <<ok, r.items>>

JudgeP(e, S) ==
  LET gone == SeqToSet(e.done)
      n    == Cardinality(S)
      S1   == {i \in S : i.uid \notin gone}
      ok == /\ Report("VERDICT", "C10_Completion", e,
                      gone \subseteq Uids(S) /\ NoDups(e.done) /\ Len(e.done) = Max0(0, n - Max0(e.k, 0)))
            /\ Report("VERDICT", "C10_NoLoss", e, e.nq = Cardinality(S1))
            /\ Report("DRIFT", "prune-order", e, S1 = PruneRef(S, e.k))
  IN <<ok, S1>>

JudgeR(e, S) ==
  LET ok == /\ Report("VERDICT", "C10_Completion", e, SeqToSet(e.done) = Uids(S) /\ NoDups(e.done))
            /\ Report("VERDICT", "C10_NoLoss", e, e.nq = 0)
  IN <<ok, {}>>

TInit == l = 1 /\ ritems = {} /\ rclock = 0 /\ rdone = {} /\ gcase = -1 /\ bad = FALSE

TStep ==
  /\ l <= Len(Trace)
  /\ LET e     == Trace[l]
         fresh == e.case # gcase
         S     == IF fresh THEN {} ELSE ritems
         D     == IF fresh THEN {} ELSE rdone
         skip  == ~fresh /\ bad
     IN IF skip
        THEN UNCHANGED <<ritems, rclock, rdone, bad>> /\ gcase' = e.case
        ELSE LET np == Report("VERDICT", "C10_NoPanic", e, e.panic = "")
                 once == Report("VERDICT", "C10_Once", e, SeqToSet(e.done) \cap D = {})
                 c0 == IF fresh THEN 0 ELSE rclock
                 j == CASE e.op = "Q" -> JudgeQ(e, S, c0)
                        [] e.op = "G" -> JudgeG(e, S)
                        [] e.op = "P" -> JudgeP(e, S)
                        [] e.op = "R" -> JudgeR(e, S)
             IN /\ np /\ once
                /\ ritems' = j[2]
                /\ rclock' = IF e.op = "Q" THEN c0 + 1 ELSE c0
                /\ rdone' = D \cup SeqToSet(e.done)
                /\ bad' = ~(j[1] /\ e.panic = "" /\ SeqToSet(e.done) \cap D = {})
                /\ gcase' = e.case
  /\ l' = l + 1

TDone == /\ l = Len(Trace) + 1
         /\ PrintT(<<"DONE", Len(Trace)>>)
         /\ l' = l + 1 /\ UNCHANGED <<ritems, rclock, rdone, gcase, bad>>

TSpec == TInit /\ [][TStep \/ TDone]_tqvars
=============================================================================
