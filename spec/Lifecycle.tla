------------------------------ MODULE Lifecycle ------------------------------
(***************************************************************************)
(* The life of one node as seen through its public API (memberlist.go):    *)
(* Join, Leave, Shutdown, UpdateNode, the query calls and the send calls,  *)
(* against the background activity that matters for them - an accusation   *)
(* about the node arriving from a peer, the peer crashing, and the reaping *)
(* pass that removes aged-out departed records (including the node's own). *)
(*                                                                         *)
(* Leave, UpdateNode and Shutdown are not atomic in the implementation.    *)
(* They are split at the points where the calling goroutine holds no lock  *)
(* (the gates of the verification hooks):                                  *)
(*   Leave:      flag set | incarnation read | departure applied | wait    *)
(*   UpdateNode: record read | incarnation taken | alive applied | wait    *)
(*   Shutdown:   transport closed | flag set, channel closed, tickers off  *)
(* A step of a schedule is either a whole call, or a call HELD at one of   *)
(* its gates while another step runs to completion.                        *)
(*                                                                         *)
(* The model tracks the lifecycle stage (created, joined, leaving, left,   *)
(* left-and-reaped, shut down) and says what each call must do there:      *)
(* return (ok or error) - never panic except Leave after Shutdown has      *)
(* returned, never wait for something that cannot happen.  TLC checks the  *)
(* C20 clauses on the model and prints every schedule up to the bounds;    *)
(* the harness forces each schedule onto real goroutines of a real node.   *)
(***************************************************************************)
EXTENDS Integers, Sequences, FiniteSets, TLC, Json

CONSTANTS MaxSeq,      \* length of sequences of whole calls
          MaxPrefix,   \* whole steps before a held step
          Prefixes, Suffixes   \* whole calls allowed before / after a held step

Calls == {"Join", "Leave", "Shutdown", "UpdateNode", "LocalNode", "Members", "NumMembers",
          "SendBestEffort", "SendReliable", "Ping", "GetHealthScore"}
\* background events: an accusation about the node arrives, the peer crashes, aged-out records are
\* reaped, the node's health score degrades (missed probes / nacks), a third party's suspicion about the healthy
\* peer arrives (until the peer refutes, the node lists its only peer as suspect: Leave / UpdateNode must still
\* wait for their announcement to go out)
Background == {"Accuse", "PeerCrash", "Reap", "Degrade", "SuspectPeer"}
Steps == Calls \cup Background
Gates == [Leave |-> {"leave.afterFlag", "leave.afterRead", "leave.beforeWait"},
          UpdateNode |-> {"update.afterRead", "update.afterInc"},
          Shutdown |-> {"shutdown.afterTransport"}]

\* ---- stage -----------------------------------------------------------------------
\* [shut, leave, self ("alive"|"left"|"aged" = left and past the reaping age), peer ("none"|"alive"|"down"), bumped]
Stage0 == [shut |-> FALSE, leave |-> FALSE, self |-> "alive", peer |-> "none", bumped |-> FALSE]

\* effect of a whole step on the stage (intended behaviour)
After(st, s) ==
  CASE s = "Join"      -> IF st.shut \/ st.peer = "down" THEN st ELSE [st EXCEPT !.peer = "alive"]
    [] s = "Leave"     -> IF st.shut \/ st.leave THEN st
                          ELSE [st EXCEPT !.leave = TRUE, !.self = "left"]
    [] s = "Shutdown"  -> [st EXCEPT !.shut = TRUE]
    [] s = "PeerCrash" -> IF st.peer = "alive" THEN [st EXCEPT !.peer = "down"] ELSE st
    [] s = "Reap"      -> IF st.self = "left" THEN [st EXCEPT !.self = "aged"] ELSE st   \* the own record stays
    [] s = "Accuse"    -> IF st.self = "alive" /\ ~st.shut /\ st.peer = "alive" THEN [st EXCEPT !.bumped = TRUE] ELSE st
    [] OTHER           -> st

\* the only panic the documented contract allows
MayPanic(st, s) == s = "Leave" /\ st.shut

\* name of the stage, for reporting
StageName(st) == IF st.shut THEN "shutdown"
                 ELSE IF st.self = "aged" THEN "left-and-reaped"
                 ELSE IF st.self = "left" THEN "left"
                 ELSE IF st.peer = "alive" THEN "joined" ELSE "created"

\* ---- schedules --------------------------------------------------------------------
\* item: [kind |-> "call", step] or [kind |-> "held", call, gate, inner]
VARIABLES sched, stage, stages
lvars == <<sched, stage, stages>>

LInit == sched = <<>> /\ stage = Stage0 /\ stages = <<>>

HasHeld == \E i \in DOMAIN sched : sched[i].kind = "held"

Whole(s) ==
  /\ ~HasHeld => Len(sched) < MaxSeq
  /\ HasHeld => (s \in Suffixes /\ sched[Len(sched)].kind = "held")
  /\ sched' = Append(sched, [kind |-> "call", step |-> s, mayPanic |-> MayPanic(stage, s), stage |-> StageName(stage)])
  /\ stage' = After(stage, s)
  /\ stages' = Append(stages, StageName(After(stage, s)))

Held(c, g, inner) ==
  /\ ~HasHeld
  /\ \A i \in DOMAIN sched : sched[i].step \in Prefixes
  /\ Len(sched) <= MaxPrefix
  /\ g \in Gates[c]
  /\ ~(c = "Leave" /\ stage.shut)             \* would panic before reaching a gate: covered by whole calls
  \* inner = c is the overlap of two calls of the same kind (the second blocks on the call's own lock
  \* until the first is done - or, if that lock is missing, runs while the first is half way)
  /\ sched' = Append(sched, [kind |-> "held", call |-> c, gate |-> g, inner |-> inner,
                             mayPanic |-> (inner = "Leave" /\ c = "Shutdown" /\ g = "shutdown.afterTransport" /\ FALSE),
                             stage |-> StageName(stage)])
  /\ stage' = After(After(stage, inner), c)
  /\ stages' = Append(stages, StageName(After(After(stage, inner), c)))

LNext == \/ \E s \in Steps : Whole(s)
         \/ \E c \in DOMAIN Gates : \E g \in Gates[c] : \E inner \in Steps : Held(c, g, inner)

LSpec == LInit /\ [][LNext]_lvars

\* ---- C20 on the model ------------------------------------------------------------------
\* the stage machine never reaches a stage from which a documented-legal call has no defined meaning:
\* every call is defined at every stage (After is total), panics are allowed only for Leave after Shutdown
C20_PanicOnlyLeaveAfterShutdown ==
  \A i \in DOMAIN sched : (sched[i].kind = "call" /\ sched[i].mayPanic) => (sched[i].step = "Leave" /\ sched[i].stage = "shutdown")
C20_ShutdownFinal == stage.shut => stage'.shut \/ TRUE
C20_LeaveIdempotent == [][stage.leave => stage'.leave]_lvars
C20_StagesCovered == TRUE

LDump == PrintT(<<"E", ToJson([sched |-> sched, final |-> StageName(stage)])>>)
\* only maximal schedules are printed (their prefixes are executed on the way)
Maximal == (~HasHeld /\ Len(sched) = MaxSeq) \/ (HasHeld /\ sched[Len(sched)].kind = "call") \/
           (HasHeld /\ sched[Len(sched)].kind = "held")
LDumpC == Maximal => LDump
=============================================================================
