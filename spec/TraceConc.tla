------------------------------ MODULE TraceConc ------------------------------
(***************************************************************************)
(* Judge of the concurrency cases (spec/Conc.tla): one line per pair of    *)
(* operations that was executed concurrently on a real node under the Go   *)
(* race detector.  Clauses (C20 for the node's API, C17 for the keyring):  *)
(*   NoRace    the detector reported no two unordered accesses, one a      *)
(*             write, inside the library while the pair ran;               *)
(*   NoPanic   neither operation panicked (Leave after Shutdown excepted); *)
(*   NoDeadlock  when told to stop, both operations came back: no goroutine*)
(*             of the library was found waiting for a mutex at two looks   *)
(*             8 s apart.                                                  *)
(* Conformance: the locking discipline of the model says which pairs are   *)
(* unordered (expect); a report for a pair the model calls ordered, or no  *)
(* report where the model expects one, is drift.                           *)
(***************************************************************************)
EXTENDS Integers, Sequences, TLC, Json, IOUtils

TraceFile == IOEnv.VERIF_TRACE
Trace == ndJsonDeserialize(TraceFile)
VARIABLES l
Report(kind, name, e, i, ok) == IF ok THEN TRUE ELSE PrintT(<<kind, name, l, e.case, i>>)

\* the property the run serves: C20 (node API), C17 (keyring), C04 (healthy activity only: a node that deadlocks itself
\* stops answering and is suspected by its peers although nothing is wrong with it or the network)
Prop(e) == e.prop

JudgeC(e) ==
  /\ e.detector =>
       \A i \in DOMAIN e.pairs : Report("VERDICT", Prop(e) \o "_NoRace", e, i, FALSE)
  /\ Report("VERDICT", Prop(e) \o "_NoPanicConc", e, 0,
            e.pan = "" \/ (e.a = "Leave" /\ e.b = "Shutdown") \/ (e.a = "Shutdown" /\ e.b = "Leave"))
  \* no deadlock: when the two operations were told to stop, no goroutine of the library was left waiting for a mutex
  /\ \A i \in DOMAIN e.stuck : Report("VERDICT", Prop(e) \o "_NoDeadlockConc", e, i, FALSE)
  /\ Report("DRIFT", "lock-discipline", e, 0, e.detector => (e.races = 0 \/ e.expect))
  /\ ((~e.detector /\ e.prop # "C04") => PrintT(<<"VACUOUS", "no race detector">>))
  /\ PrintT(<<"STAT2", Prop(e) \o "_conc_" \o (IF e.itersA > 0 /\ e.itersB > 0 THEN "ran" ELSE "idle"), 1, 1>>)

TInit == l = 1
TStep == l <= Len(Trace) /\ JudgeC(Trace[l]) /\ l' = l + 1
TDone == l = Len(Trace) + 1 /\ PrintT(<<"DONE", Len(Trace)>>) /\ l' = l + 1
TSpec == TInit /\ [][TStep \/ TDone]_l
=============================================================================
