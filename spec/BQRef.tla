------------------------------- MODULE BQRef -------------------------------
(***************************************************************************)
(* The transmit-limited broadcast queue (queue.go) as a sequential object, *)
(* with its INTENDED meaning:                                              *)
(*   Queue(b)   a named broadcast supersedes the queued one of the same    *)
(*              non-empty name; a plain one supersedes every plain one it  *)
(*              invalidates; a unique one supersedes nothing.  Superseded  *)
(*              broadcasts complete.                                       *)
(*   Get(o,l,n) greedy retrieval: repeatedly the most preferred queued     *)
(*              broadcast that still fits (fewest transmits, then largest, *)
(*              then newest), each at most once; a broadcast handed out    *)
(*              for the RetransmitMult*ceil(log10(n+1))-th time completes  *)
(*              and leaves the queue.                                      *)
(*   Prune(k)   least preferred broadcasts complete until k remain.        *)
(*   Reset      everything completes.                                      *)
(* `stamp` is a monotone submission counter: unlike the implementation's   *)
(* id generator it never restarts, so two queued broadcasts never tie.     *)
(*                                                                         *)
(* The operators below are used by the bounded model in this module (every *)
(* operation sequence up to a depth, which TLC both checks and prints for  *)
(* replay on the real queue) and by TraceQueue, which steps the same       *)
(* reference along operation sequences recorded from the real queue.       *)
(***************************************************************************)
EXTENDS Integers, Sequences, FiniteSets, TLC, Json

\* ceil(log10(n+1)) for the cluster sizes used
CeilLog10p1(n) == IF n <= 0 THEN 0 ELSE IF n <= 9 THEN 1 ELSE IF n <= 99 THEN 2 ELSE IF n <= 999 THEN 3 ELSE 4
Limit(mult, n) == mult * CeilLog10p1(n)

\* item: [uid, kind, name, len, tr, stamp];  kind \in {"named","unique","plain"};
\* for plain broadcasts `name` is the group they invalidate
Better(y, x) == \/ y.tr < x.tr
                \/ (y.tr = x.tr /\ y.len > x.len)
                \/ (y.tr = x.tr /\ y.len = x.len /\ y.stamp > x.stamp)

Best(S)  == CHOOSE x \in S : \A y \in S \ {x} : ~Better(y, x)
Worst(S) == CHOOSE x \in S : \A y \in S \ {x} : ~Better(x, y)

Victims(items, b) ==
  IF b.kind = "named" /\ b.name # "" THEN {i \in items : i.kind = "named" /\ i.name = b.name}
  ELSE IF b.kind = "plain" THEN {i \in items : i.kind = "plain" /\ i.name = b.name}
  ELSE {}      \* unique, or named with an empty name (it has no subject to supersede)

RECURSIVE Greedy(_, _, _, _)
Greedy(pool, used, overhead, limit) ==
  LET free == limit - used - overhead
      fits == {i \in pool : i.len <= free}
  IN IF free <= 0 \/ fits = {} THEN <<>>
     ELSE LET x == Best(fits) IN <<x>> \o Greedy(pool \ {x}, used + overhead + x.len, overhead, limit)

SeqToSet(s) == {s[i] : i \in DOMAIN s}

\* result of Get on items: [picked (sequence of items), items (after), done (sequence of uids completed)]
GetRef(items, overhead, limit, mult, n) ==
  LET picked == Greedy(items, 0, overhead, limit)
      L      == Limit(mult, n)
      ps     == SeqToSet(picked)
      fin    == SelectSeq(picked, LAMBDA x : x.tr + 1 >= L)
  IN [picked |-> picked,
      items  |-> (items \ ps) \cup {[x EXCEPT !.tr = @ + 1] : x \in {y \in ps : y.tr + 1 < L}},
      done   |-> [i \in DOMAIN fin |-> fin[i].uid]]

RECURSIVE PruneRef(_, _)
PruneRef(items, k) == IF Cardinality(items) <= k \/ items = {} THEN items ELSE PruneRef(items \ {Worst(items)}, k)
=============================================================================
