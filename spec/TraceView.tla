------------------------------ MODULE TraceView ------------------------------
(***************************************************************************)
(* Judge of recorded membership steps.                                     *)
(*                                                                         *)
(* The trace (ndjson, one line per hooked step of the real code, written   *)
(* by the harness sink) is loaded and stepped through line by line.  For   *)
(* every line TLC evaluates                                                *)
(*   - every property predicate of MLProps (a false one is reported as     *)
(*     VERDICT - the real code violated the property on that step),        *)
(*   - the C07 predicates against the member list rebuilt from the events, *)
(*   - conformance with the transcribed rules of MLCore (a difference is   *)
(*     reported as DRIFT - the code no longer follows the model; not a     *)
(*     verdict).                                                           *)
(* Nothing is searched: the behaviour is exactly the recorded one.         *)
(***************************************************************************)
EXTENDS MLProps, TLC, Json, IOUtils

TraceFile == IOEnv.VERIF_TRACE
Trace == ndJsonDeserialize(TraceFile)

VARIABLES l,        \* next line
          ghost,    \* node -> member list rebuilt from its events
          gcase,    \* replay case the ghost belongs to (0 in simulations)
          held      \* <<node, member>> -> the record the node held after its last recorded step (replay cases)

\* Exercise statistics (how many steps made a predicate's antecedent true, and how many
\* distinct step classes) are kept in TLC registers, not in the state: one worker, linear trace.
Reg(i) == 100 + i

tvars == <<l, ghost, gcase, held>>

SetOf(s) == {s[i] : i \in DOMAIN s}

Norm(x) == [x EXCEPT !.members = SetOf(@), !.membersPre = SetOf(@),
                     !.tpre = [@ EXCEPT !.conf = SetOf(@)], !.tpost = [@ EXCEPT !.conf = SetOf(@)],
                     !.removed = SetOf(@)]

Report(kind, name, e, ok) == IF ok THEN TRUE ELSE PrintT(<<kind, name, l, e.case, e.g>>)

\* ---- conformance with MLCore -------------------------------------------------
XOf(e) == [self |-> e.n, now |-> e.t, rec |-> e.pre, timer |-> e.tpre, selfInc |-> e.incPre,
           leave |-> e.leave, nn |-> e.nnPre, allowed |-> e.allowed, veto |-> e.filtered,
           cfg |-> e.cfg]

EvProj(x) == [kind |-> x.kind, name |-> x.name, addr |-> x.addr, port |-> x.port, meta |-> x.meta]

Conforms(e) ==
  LET o == Apply(XOf(e), e.op, e.claim, e.boot, e.notify) IN
  /\ Report("DRIFT", "rec", e, e.post = o.rec)
  /\ Report("DRIFT", "timer", e, e.tpost = o.timer)
  /\ Report("DRIFT", "selfInc", e, e.incPost = o.selfInc)
  /\ Report("DRIFT", "numNodes", e, e.nnPost = o.nn)
  /\ Report("DRIFT", "bcast", e, e.bcast = o.bcast)
  /\ Report("DRIFT", "events", e, [i \in DOMAIN e.events |-> EvProj(e.events[i])] = o.events)
  /\ Report("DRIFT", "conflict", e, e.conflict = o.conflict)
  /\ Report("DRIFT", "health", e, e.health = o.health)

\* ---- one line ------------------------------------------------------------------
\* The ghost member list of node n is valid while lines of the same replay case (or of
\* the one simulation, case 0) follow each other; otherwise it is re-seeded from the
\* member list the step itself saw on entry.
Valid(e) == e.case = gcase /\ e.n \in DOMAIN ghost
GhostBefore(e) == IF Valid(e) THEN ghost[e.n] ELSE e.membersPre

\* What the node holds is what its last step left, whatever a step that was already under way believes: a step
\* whose own view of the record (read when it began) is older than that must not move the record backwards from
\* what the node held.  (Critical sections that are really mutually exclusive make held = pre; the clause bites
\* when a step lets another one in - e.g. a lock released around a callback - and then carries on with a stale view.)
HKey(e) == <<e.n, e.claim.node>>
HeldKnown(e) == e.ev = "NodeOp" /\ e.case # 0 /\ e.case = gcase /\ HKey(e) \in DOMAIN held
Core(r) == <<r.state, r.inc>>
C01_HeldForward(e) ==
  (HeldKnown(e) /\ Core(held[HKey(e)]) # Core(e.pre) /\ ~IsAbsent(held[HKey(e)]) /\ ~IsAbsent(e.post))
     => (KeyLeq(held[HKey(e)], e.post) \/ LegitReclaim([e EXCEPT !.pre = held[HKey(e)]]))
HeldAfter(e) ==
  LET base == IF e.case = gcase THEN held ELSE << >> IN
  IF e.ev = "NodeOp" /\ e.case # 0
  THEN [k \in DOMAIN base \cup {HKey(e)} |-> IF k = HKey(e) THEN e.post ELSE base[k]]
  ELSE IF e.ev = "Reap" THEN << >> ELSE base

Judge(e) ==
  /\ \A i \in DOMAIN StepProps : Report("VERDICT", StepProps[i], e, StepHolds(StepProps[i], e))
  /\ Report("VERDICT", "C01_HeldForward", e, C01_HeldForward(e))
  /\ Report("DRIFT", "continuity", e, HeldKnown(e) => Core(held[HKey(e)]) = Core(e.pre))
  /\ (e.ev \in {"NodeOp", "Reap"}) =>
        /\ Report("VERDICT", "C07_Order", e, C07_Order(e, GhostBefore(e)))
        /\ Report("VERDICT", "C07_Log", e, C07_Log(e, GhostBefore(e)))
        /\ Report("VERDICT", "C07_NoSilentChange", e, GhostBefore(e) = e.membersPre)
  /\ (e.ev = "StrayEvent") => Report("VERDICT", "C07_EventOutsideStep", e, FALSE)
  /\ (e.ev = "NodeOp" /\ e.exact) => Conforms(e)
  /\ (e.ev = "NodeOp" /\ e.exact) => Report("DRIFT", "order-core", e, OrderCore(e))

Keep(e) == IF e.case = gcase THEN ghost ELSE << >>
With(g, n, v) == [m \in DOMAIN g \cup {n} |-> IF m = n THEN v ELSE g[m]]

GhostAfter(e) ==
  CASE e.ev \in {"NodeOp", "Reap"} -> With(Keep(e), e.n, ApplyEvents(GhostBefore(e), e.events, 1))
    [] e.ev = "Init"               -> With(Keep(e), e.n, e.members)
    [] e.ev = "StrayEvent" /\ Valid(e) -> With(ghost, e.n, ApplyEvents(ghost[e.n], e.events, 1))
    [] OTHER                        -> Keep(e)

TInit == /\ l = 1 /\ ghost = << >> /\ gcase = -1 /\ held = << >>
         /\ \A i \in DOMAIN StepProps : TLCSet(Reg(i), <<0, {}>>)

TStep == /\ l <= Len(Trace)
         /\ LET e == Norm(Trace[l]) IN
              /\ Judge(e)
              /\ ghost' = GhostAfter(e)
              /\ held' = HeldAfter(e)
              /\ gcase' = e.case
              /\ \A i \in DOMAIN StepProps :
                    IF StepAnte(StepProps[i], e)
                    THEN TLCSet(Reg(i), <<TLCGet(Reg(i))[1] + 1, TLCGet(Reg(i))[2] \cup {StepClass(e)}>>)
                    ELSE TRUE
         /\ l' = l + 1

TDone == /\ l = Len(Trace) + 1
         /\ \A i \in DOMAIN StepProps :
               PrintT(<<"STAT", StepProps[i], TLCGet(Reg(i))[1], Cardinality(TLCGet(Reg(i))[2])>>)
         /\ PrintT(<<"DONE", Len(Trace)>>)
         /\ l' = l + 1 /\ UNCHANGED <<ghost, gcase, held>>

TSpec == TInit /\ [][TStep \/ TDone]_tvars
=============================================================================
