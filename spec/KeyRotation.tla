---------------------------- MODULE KeyRotation ----------------------------
(***************************************************************************)
(* Zero-downtime key rotation across a cluster (property C17, second half).*)
(* Every node has a keyring (reference semantics of KRRef).  The operator  *)
(* procedure has three phases,                                             *)
(*      1 install-new : AddKey(new)     on every node                      *)
(*      2 use-new     : UseKey(new)     on every node                      *)
(*      3 remove-old  : RemoveKey(old)  on every node                      *)
(* with a barrier between phases (a phase starts only when every node has  *)
(* finished the previous one); inside a phase the nodes perform their step *)
(* in any order.  pc[n] counts the steps node n has done.  An exchange     *)
(* from s to r works iff the key s encrypts with (its primary) is one of   *)
(* the keys r tries (its ring): C17_Rotation demands this for every        *)
(* ordered pair at every reachable state.  With Barrier = FALSE the nodes  *)
(* run ahead of each other and C17_Rotation fails (control experiment).    *)
(* The CONSTRAINT RDump prints every complete interleaving for replay on   *)
(* real keyrings with real encryptPayload / decryptPayload exchanges.      *)
(***************************************************************************)
EXTENDS KRRef

CONSTANTS NodeSeq,   \* sequence of node names
          OldKey, NewKey,
          RStarts,   \* set of functions node -> [keys, primary] (NewKeyring arguments)
          Barrier    \* TRUE: the procedure as documented

Node == KRange(NodeSeq)

VARIABLES rings, pc, rstart, rhist, rlast
rvars == <<rings, pc, rstart, rhist, rlast>>

PhaseOp(p) == CASE p = 0 -> [op |-> "A", key |-> NewKey]
                [] p = 1 -> [op |-> "U", key |-> NewKey]
                [] p = 2 -> [op |-> "R", key |-> OldKey]

RInit == /\ rstart \in RStarts
         /\ rings = [n \in Node |-> NewRef(rstart[n].keys, rstart[n].primary).keys]
         /\ pc = [n \in Node |-> 0]
         /\ rhist = <<>>
         /\ rlast = "ok"

RStep(n) ==
  /\ pc[n] < 3
  /\ Barrier => \A m \in Node : pc[m] >= pc[n]
  /\ LET c == PhaseOp(pc[n])
         r == ApplyRef(c.op, rings[n], c.key)
     IN /\ rings' = [rings EXCEPT ![n] = r.keys]
        /\ rlast' = r.res
        /\ rhist' = Append(rhist, [node |-> n, op |-> c.op, key |-> c.key.id])
  /\ pc' = [pc EXCEPT ![n] = @ + 1]
  /\ UNCHANGED rstart

RNext == \E n \in Node : RStep(n)
RSpec == RInit /\ [][RNext]_rvars

CanSend(s, r) == rings[s] # <<>> /\ rings[s][1] \in KRange(rings[r])

C17_Rotation == \A s, r \in Node : CanSend(s, r)
C17_RotRings == \A n \in Node : rings[n] # <<>> /\ RingOK(rings[n])
C17_RotSteps == rlast = "ok"                       \* no step of the procedure is refused
C17_RotGoal  == (\A n \in Node : pc[n] = 3) =>
                  \A n \in Node : rings[n][1] = NewKey /\ OldKey \notin KRange(rings[n])

RDump == (Len(rhist) = 3 * Len(NodeSeq)) =>
           PrintT(<<"E", ToJson([kind  |-> "rot",
                                 start |-> [i \in DOMAIN NodeSeq |->
                                              [node |-> NodeSeq[i], keys |-> KIds(rstart[NodeSeq[i]].keys),
                                               primary |-> rstart[NodeSeq[i]].primary.id]],
                                 steps |-> rhist])>>)
=============================================================================
