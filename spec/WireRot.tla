------------------------------ MODULE WireRot ------------------------------
(***************************************************************************)
(* Key rotation on a live node, interleaved with inbound and outbound      *)
(* traffic (C14 "every interleaving with key rotation", C15 "key rotation  *)
(* in progress", C17 "a key installed is usable").  One node; the state is *)
(* its ring.  Steps:                                                       *)
(*   KeyOp(op, k)   AddKey / UseKey / RemoveKey on the node's keyring;     *)
(*   Recv(m, k)     a message of class m (packet user / ping, stream user  *)
(*                  message / push-pull) sealed under k, or plaintext,     *)
(*                  arrives: acted on iff Accepts; a reply (ack, state) is *)
(*                  sealed under SealKey;                                  *)
(*   Send(p)        the node sends a user message on path p: sealed under  *)
(*                  SealKey.                                               *)
(* TLC checks the three clauses of WRRef on every reachable step and       *)
(* prints every step sequence that ends in traffic (CONSTRAINT WDump); the *)
(* sequences are executed on a real node (harness zz_verif_wirerot_test.go)*)
(* and TraceWireRot judges the recorded steps - in particular that a key   *)
(* is refused from the very message after its removal, whatever the node   *)
(* accepted before.                                                        *)
(***************************************************************************)
EXTENDS WRRef

CONSTANTS OpKeys,     \* keys for UseKey / RemoveKey
          AddKeys,    \* keys for AddKey
          MsgKeys,    \* keys inbound traffic is sealed under (Plain = not sealed)
          WStarts,    \* set of [ring, vin, vout]: initial ring and verification flags
          Classes,    \* set of <<path, msg>> of inbound traffic
          Paths,      \* paths of outbound traffic
          MaxOps, DumpAt

VARIABLES ring, start, hist, last
wvars == <<ring, start, hist, last>>

WInit == /\ start \in WStarts /\ ring = start.ring /\ hist = <<>>
         /\ last = [kind |-> "none"]

KeyOp(op, k) ==
  /\ LET r == ApplyRef(op, ring, k) IN
       /\ ring' = r.keys
       /\ last' = [kind |-> "op", op |-> op, key |-> k, res |-> r.res]
  /\ hist' = Append(hist, [op |-> op, key |-> k.id, klen |-> k.len, path |-> "", msg |-> ""])
  /\ UNCHANGED start

Recv(c, k) ==
  /\ last' = [kind |-> "recv", key |-> k, acted |-> Accepts(ring, start.vin, k), seal |-> SealKey(ring, start.vout)]
  /\ hist' = Append(hist, [op |-> "V", key |-> k.id, klen |-> k.len, path |-> c[1], msg |-> c[2]])
  /\ UNCHANGED <<ring, start>>

Send(p) ==
  /\ last' = [kind |-> "send", seal |-> SealKey(ring, start.vout)]
  /\ hist' = Append(hist, [op |-> "S", key |-> "", klen |-> 0, path |-> p, msg |-> "user"])
  /\ UNCHANGED <<ring, start>>

WNext == /\ Len(hist) < MaxOps
         /\ \/ \E k \in AddKeys : KeyOp("A", k)
            \/ \E k \in OpKeys : KeyOp("U", k) \/ KeyOp("R", k)
            \/ \E c \in Classes, k \in MsgKeys : Recv(c, k)
            \/ \E p \in Paths : Send(p)
WSpec == WInit /\ [][WNext]_wvars

\* ---- checked on the model ----------------------------------------------------
P_C14 == last.kind = "recv" => C14_CurrentKeys(ring, start.vin, last.key, last.acted)
P_C17 == last.kind = "recv" => C17_NodeUsable(ring, last.key, last.acted)
P_C15 == last.kind \in {"recv", "send"} => C15_PrimaryNow(ring, start.vout, last.seal)
\* the ring of a running node keeps the C17 state clause, and is never emptied once it holds a key
P_Ring == RingOK(ring) /\ (start.ring # <<>> => ring # <<>>)
\* a removed key is refused by the very next message, a key just installed is honoured by it
P_Rotation == [][\A k \in OpKeys \cup AddKeys :
                   /\ (k \in KRange(ring) /\ k \notin KRange(ring')) => ~Accepts(ring', TRUE, k)
                   /\ (k \notin KRange(ring) /\ k \in KRange(ring')) => Accepts(ring', TRUE, k)]_wvars

WView == <<ring, start, Len(hist), last>>
WDump == (DumpAt > 0 /\ Len(hist) = DumpAt /\ hist[DumpAt].op \in {"V", "S"}) =>
           PrintT(<<"E", ToJson([start |-> KIds(start.ring), lens |-> [i \in DOMAIN start.ring |-> start.ring[i].len],
                                  vin |-> start.vin, vout |-> start.vout, ops |-> hist])>>)
=============================================================================
