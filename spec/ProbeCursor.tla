----------------------------- MODULE ProbeCursor -----------------------------
(***************************************************************************)
(* The probe schedule of one node (state.go probe, resetNodes; util.go     *)
(* moveDeadNodes, shuffleNodes; the random insertion offset of aliveNode). *)
(*                                                                         *)
(* `order` is the node list, `idx` the cursor.  One tick of the probe      *)
(* ticker walks the cursor: skip the node itself and dead / left members   *)
(* without consuming the tick, at the end of the list reap the aged-out    *)
(* dead, shuffle (any permutation) and continue, probe the first live peer *)
(* found, give up after looking at every entry once.  Meanwhile membership *)
(* may change: a new member is inserted by swapping it with the entry at a *)
(* random offset, a member may die or come back.                           *)
(*                                                                         *)
(* Checked by TLC for up to 4 peers, every permutation at every wrap, every*)
(* insertion offset and every point of a death:                            *)
(*   C03_NoSelfNoDead  the probed target is never the node itself and      *)
(*                     never a dead member;                                *)
(*   C03_Pass          between two wraps with unchanged membership every   *)
(*                     live peer is probed exactly once;                   *)
(*   C03_Steady        a peer that is live during a WHOLE pass is probed in *)
(*                     it, whatever happens to the others;                 *)
(*   C03_TwoPass       whatever the churn, no peer goes unprobed for two   *)
(*                     complete passes during which it was live throughout *)
(*                     (a peer that was dead when the cursor came by and   *)
(*                     alive again afterwards was rightly skipped).        *)
(* The same three clauses are judged on the ProbePick / Reap lines of the  *)
(* simulation traces (TraceCluster).                                       *)
(***************************************************************************)
EXTENDS Integers, Sequences, FiniteSets, TLC

CONSTANTS Peers,       \* names of the other members
          MaxChurn     \* bound on membership changes

Self == "self"
VARIABLES order,     \* sequence of [name, live]
          idx,       \* cursor (0-based like the code; idx = Len(order) means "wrap at the next tick")
          picks,     \* name -> number of probes in the current pass
          stable,    \* no membership change since the last wrap
          full,      \* the current pass began with a wrap
          missed,    \* name -> complete passes without a probe
          churn,
          flap,      \* peers whose liveness or presence changed since the last wrap
          last,      \* last probed target ("" = none yet)
          wrapNow    \* the last tick passed the end of the list
pvars == <<order, idx, picks, stable, full, missed, churn, flap, last, wrapNow>>

Names(o) == {o[i].name : i \in DOMAIN o}
Live(o) == {o[i].name : i \in {j \in DOMAIN o : o[j].live}} \ {Self}
Perms(S) == {f \in [1..Cardinality(S) -> S] : \A i, j \in DOMAIN f : f[i] = f[j] => i = j}

Init == /\ order \in {[i \in 1..(Cardinality(Peers) + 1) |-> [name |-> p[i], live |-> TRUE]] : p \in Perms(Peers \cup {Self})}
        /\ idx = 0 /\ picks = [n \in Peers |-> 0] /\ stable = TRUE /\ full = FALSE
        /\ missed = [n \in Peers |-> 0] /\ churn = 0 /\ flap = {} /\ last = "" /\ wrapNow = FALSE

\* resetNodes: drop the dead (all of them are aged out here), shuffle the rest in any order
Wrapped(o) == LET keep == {o[i] : i \in {j \in DOMAIN o : o[j].live \/ o[j].name = Self}} IN
              {[i \in 1..Cardinality(keep) |-> p[i]] : p \in Perms(keep)}

\* walk from position i (0-based) having looked at c entries: result <<target or "", new idx, wrapped?, new order>>
RECURSIVE Walk(_, _, _, _)
Walk(o, i, c, wrapped) ==
  IF c >= Len(o) THEN {<<"", i, wrapped, o>>}
  ELSE IF i >= Len(o)
       THEN UNION {Walk(o2, 0, c + 1, TRUE) : o2 \in Wrapped(o)}
       ELSE LET e == o[i + 1] IN
            IF e.name = Self \/ ~e.live THEN Walk(o, i + 1, c + 1, wrapped)
            ELSE {<<e.name, i + 1, wrapped, o>>}

Tick ==
  \E r \in Walk(order, idx, 0, FALSE) :
    LET tgt == r[1]
        wr  == r[3]
        liveNow == Live(r[4]) IN
    /\ order' = r[4] /\ idx' = r[2] /\ last' = tgt /\ wrapNow' = wr
    /\ IF wr
       THEN /\ missed' = [n \in Peers |-> IF n \in liveNow /\ full /\ n \notin flap /\ picks[n] = 0 THEN missed[n] + 1
                                          ELSE IF n \in liveNow /\ full THEN 0 ELSE missed[n]]
            /\ picks' = [n \in Peers |-> IF n = tgt THEN 1 ELSE 0]
            /\ stable' = TRUE /\ full' = TRUE /\ flap' = {}
       ELSE /\ picks' = [n \in Peers |-> IF n = tgt THEN picks[n] + 1 ELSE picks[n]]
            /\ UNCHANGED <<missed, stable, full, flap>>
    /\ UNCHANGED churn

\* a member dies (stays in the list until the next wrap)
Die(n) == /\ churn < MaxChurn /\ n \in Live(order)
          /\ order' = [i \in DOMAIN order |-> IF order[i].name = n THEN [order[i] EXCEPT !.live = FALSE] ELSE order[i]]
          /\ stable' = FALSE /\ churn' = churn + 1 /\ flap' = flap \cup {n}
          /\ wrapNow' = FALSE /\ UNCHANGED <<idx, picks, full, missed, last>>

\* a new (or reaped and returning) member is appended and swapped with the entry at a random offset
Insert(n, off) == /\ churn < MaxChurn /\ n \in Peers \ Names(order) /\ off \in 0..Len(order)
                  /\ LET o1 == Append(order, [name |-> n, live |-> TRUE])
                         k  == Len(o1) IN
                     order' = [i \in DOMAIN o1 |-> IF i = off + 1 THEN o1[k] ELSE IF i = k THEN o1[off + 1] ELSE o1[i]]
                  /\ stable' = FALSE /\ churn' = churn + 1 /\ flap' = flap \cup {n}
                  /\ wrapNow' = FALSE /\ UNCHANGED <<idx, picks, full, missed, last>>

\* a dead member that is still in the list comes back
Revive(n) == /\ churn < MaxChurn /\ \E i \in DOMAIN order : order[i].name = n /\ ~order[i].live
             /\ order' = [i \in DOMAIN order |-> IF order[i].name = n THEN [order[i] EXCEPT !.live = TRUE] ELSE order[i]]
             /\ stable' = FALSE /\ churn' = churn + 1 /\ flap' = flap \cup {n}
             /\ wrapNow' = FALSE /\ UNCHANGED <<idx, picks, full, missed, last>>

Next == Tick \/ (\E n \in Peers : Die(n) \/ Revive(n) \/ \E off \in 0..Cardinality(Peers) : Insert(n, off))
Spec == Init /\ [][Next]_pvars

C03_NoSelfNoDead == last # Self
C03_PickIsLive   == [][Tick => (last' = "" \/ \E i \in DOMAIN order' : order'[i].name = last' /\ order'[i].live)]_pvars
\* at a wrap that closes a complete pass with unchanged membership every live peer was probed exactly once
C03_Pass == [][ (wrapNow' /\ full /\ stable) => \A n \in Live(order) : picks[n] = 1 ]_pvars
C03_PassInv == (full /\ stable) => \A n \in Live(order) : picks[n] <= 1
\* a peer that was live (and present) during the whole pass that a wrap closes was probed in it
C03_Steady == [][ (wrapNow' /\ full) => \A n \in Live(order) \ flap : picks[n] >= 1 ]_pvars
C03_TwoPass == \A n \in Peers : missed[n] <= 1
=============================================================================
