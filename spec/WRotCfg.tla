------------------------------ MODULE WRotCfg ------------------------------
EXTENDS WireRot
K1 == Key("k1", 16)
K2 == Key("k2", 24)
K3 == Key("k3", 32)
OpKeysK  == {K1, K2}
AddKeysK == {K2, K3}
MsgKeysK == {K1, K2, K3, Plain}
St(r, vi, vo) == [ring |-> r, vin |-> vi, vout |-> vo]
StartsK == {St(<<K1>>, TRUE, TRUE), St(<<K2, K1>>, TRUE, TRUE), St(<<>>, TRUE, TRUE),
            St(<<K1>>, FALSE, TRUE), St(<<K2, K1>>, TRUE, FALSE)}
ClassesK == {<<"packet", "user">>, <<"packet", "ping">>, <<"stream", "userstream">>, <<"stream", "pushpull">>}
PathsK == {"packet", "stream"}
\* the reduced alphabet (quick tier at depth 3, thorough tier at depth 4)
MsgKeysR == {K1, K2, Plain}
StartsR  == {St(<<K1>>, TRUE, TRUE), St(<<K2, K1>>, TRUE, TRUE), St(<<>>, TRUE, TRUE)}
ClassesR == {<<"packet", "user">>, <<"stream", "pushpull">>}
=============================================================================
