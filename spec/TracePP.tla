------------------------------- MODULE TracePP -------------------------------
(***************************************************************************)
(* Judge of push/pull exchanges run between two real nodes with an injected*)
(* failure (one line per run).  The outcome function of module PushPull is *)
(* the oracle for conformance; the C09 clauses are evaluated on what the   *)
(* nodes really did.                                                       *)
(***************************************************************************)
EXTENDS Integers, Sequences, TLC, Json, IOUtils

TraceFile == IOEnv.VERIF_TRACE
Trace == ndJsonDeserialize(TraceFile)
VARIABLES l
Report(kind, name, e, ok) == IF ok THEN TRUE ELSE PrintT(<<kind, name, l, e.case, 0>>)

Reader(d) == IF d = "i2h" THEN "H" ELSE "I"

JudgePP(e) ==
  LET failed == e.fail # "none" /\ ~(e.fail = "cut" /\ e.cutAt >= e.total)   \* a cut beyond the end is no cut
      readFailure == e.fail \in {"cut", "auth", "nodecap", "usercap", "label", "busy"}
      readerChanged == IF Reader(e.dir) = "H" THEN e.hChanged ELSE e.iChanged IN
  \* a side whose inbound message was cut, unauthentic, oversized, vetoed, version-incompatible or
  \* mislabeled changes nothing
  /\ Report("VERDICT", "C09_AllOrNothing", e, failed => ~readerChanged)
  \* a failure on the way to the host: the initiator learns nothing either, and Join reports failure
  \* (a veto or a version mismatch on the host's side happens after the host has replied)
  /\ Report("VERDICT", "C09_NoHalfJoin", e, (failed /\ readFailure /\ e.dir = "i2h") => (~e.iChanged /\ e.joinErr # ""))
  \* a failed reply: Join must not report the host as joined
  /\ Report("VERDICT", "C09_JoinResult", e, (failed /\ e.dir = "h2i") => e.joinErr # "")
  \* success: the joiner lists the host and what it reported alive, not what it reported dead;
  \* the host lists the joiner as soon as its handler is done
  /\ Report("VERDICT", "C09_JoinMutual", e,
            (~failed) => (e.joinErr = "" /\ e.iListsH /\ e.iListsH2 /\ ~e.iListsH3 /\ e.hListsI))
  \* whenever Join reports the host as joined, the host lists the joiner once its handler is done - unless the
  \* host's own merge was vetoed or found the versions incompatible (it has replied by then)
  /\ Report("VERDICT", "C09_JoinMutualAlways", e,
            (e.join /\ e.joinErr = "" /\ e.fail \notin {"veto", "versions", "nodecap", "usercap"}) => e.hListsI)
  /\ Report("VERDICT", "C09_Listed", e, (e.joinErr = "" /\ e.fail \notin {"nodecap", "usercap"}) => e.iListsH)
  \* conformance: the host merges after replying, so a failure of the reply direction does not undo its merge
  /\ Report("DRIFT", "host-merge", e, (failed /\ e.dir = "h2i" /\ e.fail \notin {"nodecap", "usercap", "versions"}) => e.hChanged)
  \* incompatible protocol versions are seen by both sides (each checks the union of both lists)
  /\ Report("VERDICT", "C09_Versions", e, (e.fail = "versions") => (~e.iChanged /\ ~e.hChanged))
  /\ PrintT(<<"STAT2", IF failed THEN "C09_failed_" \o e.fail ELSE "C09_complete", 1, 1>>)

JudgeV(e) ==
  /\ Report("VERDICT", "C09_Versions", e, (e.note = "" /\ e.noOverlap) => ~e.accepted)
  \* ... nor one in which some alive node speaks a version another alive node does not understand
  /\ Report("VERDICT", "C09_VersionsSpoken", e, (e.note = "" /\ e.unintelligible) => ~e.accepted)
  \* the answer does not depend on the order in which the node happens to hold its members
  /\ Report("VERDICT", "C09_VersionsOrder", e, e.note = "" => e.accepted = e.acceptedSwapped)
  /\ Report("DRIFT", "verifyProtocol", e, e.note # "" \/ e.accepted = e.modelAccepted)
  /\ PrintT(<<"STAT2", IF e.noOverlap THEN "C09_versions_nooverlap" ELSE "C09_versions_overlap", 1, 1>>)

TInit == l = 1
TStep == /\ l <= Len(Trace)
         /\ (IF Trace[l].ev = "PPVersions" THEN JudgeV(Trace[l]) ELSE JudgePP(Trace[l]))
         /\ l' = l + 1
TDone == l = Len(Trace) + 1 /\ PrintT(<<"DONE", Len(Trace)>>) /\ l' = l + 1
TSpec == TInit /\ [][TStep \/ TDone]_l
=============================================================================
