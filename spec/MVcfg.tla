------------------------------- MODULE MVcfg -------------------------------
(* constant definitions for the MemberView configurations *)
EXTENDS MemberView

VOk2   == <<1, 5, 5, 0, 0, 0>>
VBad   == <<0, 5, 2, 0, 0, 0>>
VShort == <<1, 5, 2>>
VNone  == <<>>

\* A1, A2 inside the allowlist, X1 outside, E0 the empty address, M3 a malformed 3-byte address
AddrsAll   == {"A1", "A2", "X1", "E0"}
AddrsFull  == {"A1", "A2", "X1", "E0", "M3"}
AllowedAll == {"A1", "A2"}
AddrsTwo   == {"A1", "X1"}

MkCfg(r, g, a, d) == [reclaim |-> r, gossipDead |-> g, allowOn |-> a, aliveDelegate |-> d]

\* quick: reclaim off / on, allowlist off / on
CfgsQuick == {MkCfg(0, 1, FALSE, FALSE), MkCfg(1, 1, TRUE, FALSE)}
CfgsFull  == {MkCfg(r, 1, a, d) : r \in {0, 1}, a \in BOOLEAN, d \in BOOLEAN}
CfgsMid   == {MkCfg(0, 1, FALSE, FALSE), MkCfg(1, 1, TRUE, FALSE), MkCfg(1, 1, FALSE, TRUE), MkCfg(0, 1, TRUE, TRUE)}

MetasQuick == {"m0", "m1"}
MetasFull  == {"m0", "m1", "mv"}
VsnsQuick  == {VOk, VBad}
VsnsFull   == {VOk, VOk2, VBad, VShort, VNone}
VsnsMid    == {VOk, VOk2, VBad, VShort}
=============================================================================
