------------------------------- MODULE WireCfg -------------------------------
EXTENDS Wire
C(l, sk, ks, vi, vo, pr, co) == [label |-> l, skip |-> sk, keys |-> ks, vin |-> vi, vout |-> vo, proto |-> pr, comp |-> co]
KeyLists == {<<>>, <<"k1">>, <<"k2", "k1">>}
\* sender: label, keys/primary, outgoing verification, protocol (encryption version), compression
SCfgsQ == {C(l, FALSE, ks, TRUE, vo, pr, TRUE) : l \in {"", "blue"}, ks \in {<<>>, <<"k1">>}, vo \in BOOLEAN, pr \in {1, 2}}
\* receiver: label, delegated label check, installed keys, incoming and outgoing verification (independent settings)
RCfgsQ == {C(l, sk, ks, vi, vo, 2, TRUE) : l \in {"", "blue"}, sk \in BOOLEAN, ks \in KeyLists, vi \in BOOLEAN, vo \in BOOLEAN}
SCfgsT == {C(l, FALSE, ks, TRUE, vo, pr, co) : l \in {"", "blue", "blu"}, ks \in {<<>>, <<"k1">>, <<"k3">>}, vo \in BOOLEAN, pr \in {1, 2, 5}, co \in BOOLEAN}
RCfgsT == {C(l, sk, ks, vi, vo, 2, TRUE) : l \in {"", "blue", "blu"}, sk \in BOOLEAN, ks \in KeyLists \cup {<<"k3">>}, vi \in BOOLEAN, vo \in BOOLEAN}
AttacksAll == {"none", "body", "version", "relabel", "striplabel", "foreignkey", "plaintext", "crc"}
=============================================================================
