------------------------------ MODULE KRotcfg ------------------------------
EXTENDS KeyRotation
KOld   == Key("k1", 16)
KNew   == Key("k3", 32)
KStale == Key("k2", 24)
Nodes3 == <<"n1", "n2", "n3">>
N(ks, p) == [keys |-> ks, primary |-> p]
\* every node on the old key; rings that differ (a stale extra key, listed before or after the
\* primary); a rotation repeated after it stopped half-way (the new key already on one node)
RStartsK == { [n \in KRange(Nodes3) |-> N(<<>>, KOld)],
              ("n1" :> N(<<KOld, KStale>>, KOld)) @@ ("n2" :> N(<<>>, KOld)) @@ ("n3" :> N(<<KStale, KOld>>, KOld)),
              ("n1" :> N(<<KOld, KNew>>, KOld)) @@ ("n2" :> N(<<KOld>>, KOld)) @@ ("n3" :> N(<<KStale>>, KOld)) }
=============================================================================
