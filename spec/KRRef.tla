------------------------------- MODULE KRRef -------------------------------
(***************************************************************************)
(* The keyring (keyring.go) as a sequential object, with its INTENDED      *)
(* meaning (property C17 and the doc comments of keyring.go):              *)
(*   the state is the sequence of installed keys, index 1 = primary key;   *)
(*   New(ks, p)  nothing given: an empty ring.  Keys without a primary:    *)
(*               error.  Otherwise the primary is installed first, then    *)
(*               every key of ks; any invalid key makes New fail.          *)
(*   Add(k)      error unless the length is 16, 24 or 32; no-op when k is  *)
(*               installed; otherwise k is installed behind the others --  *)
(*               the first key ever installed is the primary.              *)
(*   Use(k)      an INSTALLED key becomes primary (moves to the front, the *)
(*               other keys stay); anything else: error, no change.        *)
(*   Remove(k)   the primary: error, no change; an absent key: silently    *)
(*               nothing; otherwise k leaves the ring.  On an empty ring   *)
(*               nothing happens (the judge accepts ok or error there).    *)
(*   GetKeys, GetPrimary   read the sequence / its first element.          *)
(* A key is a record [id, len]; keys are equal iff the records are.  NoKey *)
(* (same shape) stands for nil / the empty byte string.                    *)
(*                                                                         *)
(* Used by Keyring (every operation sequence up to a depth, checked and    *)
(* printed for replay on the real Keyring), by KeyRotation (three rings)   *)
(* and by TraceKeyring, which steps the same reference along call          *)
(* sequences recorded from the real Keyring.                               *)
(***************************************************************************)
EXTENDS Integers, Sequences, FiniteSets, TLC, Json

Key(i, n) == [id |-> i, len |-> n]
NoKey     == Key("", 0)
ValidLen(k) == k.len \in {16, 24, 32}

KRange(s)   == {s[i] : i \in DOMAIN s}
KNoDups(s)  == \A i, j \in DOMAIN s : s[i] = s[j] => i = j
KIds(s)     == [i \in DOMAIN s |-> s[i].id]

\* every operation returns [keys |-> ring afterwards, res |-> "ok" | "error"]
KR(ks, r) == [keys |-> ks, res |-> r]

AddRef(keys, k) ==
  IF ~ValidLen(k) THEN KR(keys, "error")
  ELSE IF k \in KRange(keys) THEN KR(keys, "ok")
  ELSE KR(Append(keys, k), "ok")

UseRef(keys, k) ==
  IF k \in KRange(keys) THEN KR(<<k>> \o SelectSeq(keys, LAMBDA x : x # k), "ok")
  ELSE KR(keys, "error")

RemoveRef(keys, k) ==
  IF keys = <<>> THEN KR(keys, "ok")                 \* must not panic; ok or error both fine
  ELSE IF k = keys[1] THEN KR(keys, "error")
  ELSE KR(SelectSeq(keys, LAMBDA x : x # k), "ok")

PrimaryRef(keys) == IF keys = <<>> THEN NoKey ELSE keys[1]

RECURSIVE AddAllRef(_, _, _)
AddAllRef(keys, ks, i) ==
  IF i > Len(ks) THEN KR(keys, "ok")
  ELSE LET a == AddRef(keys, ks[i]) IN
       IF a.res = "error" THEN KR(<<>>, "error") ELSE AddAllRef(a.keys, ks, i + 1)

\* a failed New yields no ring at all: keys = <<>>, res = "error"
NewRef(ks, p) ==
  IF ks = <<>> /\ p.len = 0 THEN KR(<<>>, "ok")
  ELSE IF p.len = 0 THEN KR(<<>>, "error")
  ELSE AddAllRef(<<>>, <<p>> \o ks, 1)

\* op \in {"A","U","R","G","P"}
ApplyRef(op, keys, k) ==
  CASE op = "A" -> AddRef(keys, k)
    [] op = "U" -> UseRef(keys, k)
    [] op = "R" -> RemoveRef(keys, k)
    [] OTHER    -> KR(keys, "ok")

\* the C17 state clause on a ring
RingOK(keys) == KNoDups(keys) /\ \A i \in DOMAIN keys : ValidLen(keys[i])
=============================================================================
