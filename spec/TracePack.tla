------------------------------ MODULE TracePack ------------------------------
(***************************************************************************)
(* Judge of packing cases run on a real node: every buffer handed to the   *)
(* transport fits the configured packet size (C11_Budget), the receiver's  *)
(* handlers saw exactly the messages that were handed out for packing      *)
(* (C11_Lossless); the byte budget the node passed to its queue is compared*)
(* with the accounting of module Pack at the real overheads (drift).       *)
(***************************************************************************)
EXTENDS Integers, Sequences, TLC, Json, IOUtils

TraceFile == IOEnv.VERIF_TRACE
Trace == ndJsonDeserialize(TraceFile)
VARIABLES l
Report(kind, name, e, ok) == IF ok THEN TRUE ELSE PrintT(<<kind, name, l, e.case, 0>>)

\* the real overheads
CompoundHdr == 2
EntryO == 2
CrcO == 5
EncBudget(enc) == IF enc = "none" THEN 0 ELSE IF enc = "v1" THEN 29 ELSE 45
LabO(e) == IF e.labelLen = 0 THEN 0 ELSE 2 + e.labelLen

\* the accounting of the repaired code (module Pack with all three switches TRUE)
Avail(e) == IF e.path = "gossip"
            THEN e.buf - CompoundHdr - LabO(e) - EncBudget(e.enc) - CrcO
            ELSE e.buf - e.primaryLen - CompoundHdr - EntryO - LabO(e) - (IF e.vout THEN EncBudget(e.enc) ELSE 0) - CrcO

JudgeP(e) ==
  /\ Report("VERDICT", "C11_Budget", e, \A i \in DOMAIN e.frames : e.frames[i] <= e.buf)
  /\ Report("VERDICT", "C11_Lossless", e, e.lost = 0 /\ e.extra = 0)
  /\ Report("DRIFT", "budget", e, Len(e.packed) = 0 \/ e.limit = Avail(e))
  /\ (IF Len(e.packed) > 0 THEN PrintT(<<"STAT2", "C11_packed", 1, 1>>) ELSE TRUE)
  /\ (IF Len(e.packed) > 254 THEN PrintT(<<"STAT2", "C11_over_255_parts", 1, 1>>) ELSE TRUE)

TInit == l = 1
TStep == l <= Len(Trace) /\ JudgeP(Trace[l]) /\ l' = l + 1
TDone == l = Len(Trace) + 1 /\ PrintT(<<"DONE", Len(Trace)>>) /\ l' = l + 1
TSpec == TInit /\ [][TStep \/ TDone]_l
=============================================================================
