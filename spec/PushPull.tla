------------------------------ MODULE PushPull ------------------------------
(***************************************************************************)
(* One push/pull state exchange (net.go sendAndReceiveState, handleConn,   *)
(* readStream, readRemoteState, mergeRemoteState; memberlist.go Join) in   *)
(* phases, with a failure injected at any phase of either direction.       *)
(*                                                                         *)
(* The initiator I sends its state to the host H over a stream: label      *)
(* header, encryption header (type, length), body (push/pull header, node  *)
(* entries), user state.  H reads the whole message, replies with its own  *)
(* state FIRST and merges afterwards; I merges after it has read the whole *)
(* reply.  Either side merges only if its inbound message arrived complete,*)
(* authenticated, within the size caps, compatible in protocol versions    *)
(* and (for a join) not vetoed by the merge delegate.                      *)
(*                                                                         *)
(* TLC enumerates every (failure kind, direction, phase) and checks        *)
(*   C09_AllOrNothing  a side whose inbound message was cut / rejected     *)
(*                     changes nothing (no membership step, no delegate    *)
(*                     merge);                                             *)
(*   C09_Mutual        without failure both sides merged, so the joiner    *)
(*                     lists the host and the host lists the joiner;       *)
(*   C09_JoinResult    Join reports success iff the initiator merged.      *)
(* The cases are printed; the harness concretises a phase to byte offsets  *)
(* of a real exchange between two real nodes.                              *)
(***************************************************************************)
EXTENDS MLCore, TLC, Json

Phases == <<"label", "enchdr", "body", "userstate">>       \* in stream order
Dirs == {"i2h", "h2i"}
\* "busy": the host already has the maximum number of push/pull exchanges in progress: it refuses the next one on
\* its type byte, before reading the state (so neither side learns anything and Join reports a failure)
Fails == {"none", "cut", "auth", "nodecap", "usercap", "veto", "versions", "label", "busy"}

\* which side reads direction d
Reader(d) == IF d = "i2h" THEN "H" ELSE "I"

\* a case: failure f in direction d at phase p (p only matters for cut)
\* outcome: who merged
ReadFailure(f) == f \in {"cut", "auth", "nodecap", "usercap", "label", "busy"}
Outcome(f, d, p) ==
  LET hReadOk == ~(d = "i2h" /\ ReadFailure(f))        \* H read and accepted I's message
      hReplied == hReadOk                               \* H replies only after a good read (an error reply otherwise)
      \* H merges after replying: a veto / version mismatch on H's side stops H's merge but H has replied already;
      \* incompatible versions are detected by both sides (each checks the union of both node lists)
      hMerged == hReadOk /\ ~(f = "versions") /\ ~(f = "veto" /\ d = "i2h")
      iReadOk == hReplied /\ ~(d = "h2i" /\ ReadFailure(f))
      iMerged == iReadOk /\ ~(f = "versions") /\ ~(f = "veto" /\ d = "h2i")
  IN [hMerged |-> hMerged, iMerged |-> iMerged, joinOk |-> iMerged,
      hReplied |-> (d = "h2i" \/ f = "none")]

\* ---- protocol / delegate version compatibility (verifyProtocol) ---------------------
\* the property's demand: the understood ranges of the alive nodes of both sides must overlap
AliveVsns(sq) == {sq[i].vsn : i \in {j \in DOMAIN sq : sq[j].state = "alive"}}
NoOverlap(localSeq, remoteSeq) ==
  LET A == AliveVsns(localSeq) \cup AliveVsns(remoteSeq) IN
  /\ A # {}
  /\ ((\E va, vb \in A : va[1] > vb[2])        \* some minimum above some maximum: protocol ranges
      \/ (\E vc, vd \in A : vc[4] > vd[5]))    \* delegate ranges
\* version vectors <<pmin, pmax, pcur, dmin, dmax, dcur>>: protocol part x delegate part (delegate ranges that
\* overlap, nest, and do not overlap; maxima below and above the protocol maximum)
ProtoC == {<<1, 2, 1>>, <<1, 5, 2>>, <<2, 5, 3>>, <<1, 5, 3>>}
DelegC == {<<0, 1, 0>>, <<0, 1, 1>>, <<0, 4, 3>>, <<2, 5, 3>>, <<6, 8, 7>>}
\* the second reading of "mix": some alive node SPEAKS (current version) a protocol or delegate version that
\* another alive node does not understand (lies outside its [min, max]) - ranges may overlap and the two
\* still cannot talk, because memberlist does not negotiate versions
Speaks(va, vb) == va[3] < vb[1] \/ va[3] > vb[2] \/ va[6] < vb[4] \/ va[6] > vb[5]
Unintelligible(localSeq, remoteSeq) ==
  LET A == AliveVsns(localSeq) \cup AliveVsns(remoteSeq) IN \E va, vb \in A : Speaks(va, vb)
VsnChoices == {pr \o dl : pr \in ProtoC, dl \in DelegC}
                \cup {<<3, 5, 4, 0, 0, 0>>, <<1, 1, 1, 0, 0, 0>>}
SelfEntry == [state |-> "alive", vsn |-> <<1, 5, 2, 0, 0, 0>>]
Entries == [state : {"alive", "dead"}, vsn : VsnChoices]

VARIABLES pp
PInit == pp = [kind |-> "none"]
PNext == /\ pp.kind = "none"
         /\ \E f \in Fails, d \in Dirs, p \in 1..Len(Phases), sealed \in BOOLEAN, labeled \in BOOLEAN, comp \in BOOLEAN, join \in BOOLEAN :
              /\ (f # "cut" => p = 1)
              /\ (f = "none" => d = "i2h")
              /\ (f = "auth" => sealed)
              /\ (f = "label" => labeled /\ d = "i2h")
              /\ (f = "busy" => d = "i2h")
              /\ (f = "veto" => join)
              /\ (Phases[p] = "label" => labeled)
              /\ (Phases[p] = "enchdr" => sealed)
              /\ pp' = [kind |-> "case", fail |-> f, dir |-> d, phase |-> Phases[p], sealed |-> sealed, labeled |-> labeled,
                        comp |-> comp, join |-> join, out |-> Outcome(f, d, p)]
VNext == /\ pp.kind = "none"
         /\ \E loc \in Entries, r1 \in Entries, r2 \in Entries \cup {SelfEntry} :
              LET localSeq == <<SelfEntry, loc>>
                  remoteSeq == IF r2 = SelfEntry THEN <<r1>> ELSE <<r1, r2>> IN
              pp' = [kind |-> "versions", local |-> localSeq, remote |-> remoteSeq,
                     accepted |-> VersionsCompatible(localSeq, remoteSeq), noOverlap |-> NoOverlap(localSeq, remoteSeq),
                     unintelligible |-> Unintelligible(localSeq, remoteSeq)]
PSpec == PInit /\ [][PNext \/ VNext]_pp

\* the transcription of verifyProtocol rejects every exchange whose ranges do not overlap
C09_VersionsModel == pp.kind = "versions" => ((pp.noOverlap \/ pp.unintelligible) => ~pp.accepted)

C09_AllOrNothing == pp.kind = "case" /\ pp.fail # "none" =>
                      IF Reader(pp.dir) = "H" THEN ~pp.out.hMerged ELSE ~pp.out.iMerged
C09_Mutual       == pp.kind = "case" /\ pp.fail = "none" => pp.out.hMerged /\ pp.out.iMerged
C09_JoinResult   == pp.kind = "case" => (pp.out.joinOk <=> pp.out.iMerged)
\* a failure on the way to the host means the initiator gets no state either
C09_NoHalfJoin   == pp.kind = "case" /\ pp.dir = "i2h" /\ ReadFailure(pp.fail) => ~pp.out.iMerged

PDump == (pp.kind # "none") => PrintT(<<"E", ToJson(pp)>>)
=============================================================================
