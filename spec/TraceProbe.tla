------------------------------ MODULE TraceProbe ------------------------------
(***************************************************************************)
(* Judge of probe scenarios played against a real node (one line per       *)
(* scenario: the scenario and what the node did).  The C19 clauses are     *)
(* evaluated on the recorded outcome with the outcome functions of         *)
(* ProbeRef as the oracle.                                                 *)
(***************************************************************************)
EXTENDS ProbeRef, IOUtils

TraceFile == IOEnv.VERIF_TRACE
Trace == ndJsonDeserialize(TraceFile)

VARIABLES l
Report(kind, name, e, ok) == IF ok THEN TRUE ELSE PrintT(<<kind, name, l, e.case, 0>>)

JudgeProbe(e) ==
  LET s == e.s
      o == Outcome(s) IN
  /\ Report("VERDICT", "C19_Returns", e, e.returned)
  \* answered iff an ack with the probe's own sequence number arrived before the deadline
  \* (directly, relayed, or over the fallback stream); stray and late messages change nothing
  /\ (IF e.askedRelays = (IF o.escalated THEN Len(s.relays) ELSE 0)
      THEN Report("VERDICT", "C19_Answered", e, s.sendErr \/ (e.suspect = ~o.answered))   \* (an unsent ping is no probe)
      ELSE PrintT(<<"VACUOUS", "relays-not-asked", l, e.case, 0>>))
  /\ Report("VERDICT", "C19_Cleanup", e, e.handlers = 0)
  /\ Report("VERDICT", "C19_Score", e, e.scoreAfter >= 0 /\ e.scoreAfter <= AwMax - 1)
  \* the score rises only on a failed probe and falls only on an answered one
  /\ Report("VERDICT", "C19_ScoreCause", e,
            /\ (e.scoreAfter > s.score0 => e.suspect)
            /\ (e.scoreAfter < s.score0 => o.answered))
  /\ Report("DRIFT", "delta", e, e.delta = o.delta)
  /\ Report("DRIFT", "score", e, e.scoreAfter = o.score)
  /\ Report("DRIFT", "relays-asked", e, e.askedRelays = (IF o.escalated THEN Len(s.relays) ELSE 0))
  /\ PrintT(<<"STAT2", IF o.answered THEN "C19_answered" ELSE "C19_failed", 1, 1>>)

JudgeRelay(e) ==
  LET o == RelayOutcome(e.r) IN
  /\ Report("VERDICT", "C19_RelayFresh", e, e.r.sendErr \/ (e.pingsToTarget = 1 /\ e.freshSeq))
  /\ Report("VERDICT", "C19_RelayAck", e, e.relayedAcks = o.relayedAcks /\ e.relayedSeqOk)
  /\ Report("VERDICT", "C19_OneNack", e, e.nacks = o.nacks /\ e.nackSeqOk)
  /\ Report("VERDICT", "C19_Cleanup", e, e.handlers = 0)
  /\ PrintT(<<"STAT2", "C19_relay", 1, 1>>)

\* the probed side: conformance with RespOutcome (not a C19 clause)
JudgeResp(e) ==
  LET o == RespOutcome(e.p) IN
  /\ Report("DRIFT", "resp-acks", e, e.respAcks = o.acks /\ (o.acks = 1 => e.respSeqOk))
  /\ Report("DRIFT", "resp-to", e, e.respTo = o.to)
  /\ PrintT(<<"STAT2", "responder", 1, 1>>)

TInit == l = 1
TStep == /\ l <= Len(Trace)
         /\ (IF Trace[l].kind = "relay" THEN JudgeRelay(Trace[l])
             ELSE IF Trace[l].kind = "resp" THEN JudgeResp(Trace[l]) ELSE JudgeProbe(Trace[l]))
         /\ l' = l + 1
TDone == l = Len(Trace) + 1 /\ PrintT(<<"DONE", Len(Trace)>>) /\ l' = l + 1
TSpec == TInit /\ [][TStep \/ TDone]_l
=============================================================================
