-------------------------------- MODULE Probe --------------------------------
(***************************************************************************)
(* Bounded model over ProbeRef: every probe scenario and every relay       *)
(* scenario is one step from the initial state; TLC checks the C19 clauses *)
(* on the outcome functions and prints the scenarios for execution against *)
(* a real node with scripted peers.                                        *)
(***************************************************************************)
EXTENDS ProbeRef

CONSTANTS MaxRelays,   \* indirect probers asked (IndirectChecks)
          Scores       \* health scores the prober may start with

VARIABLES sc
PInit == sc = [kind |-> "none"]

RelaySeqs == UNION {[1..n -> RelayBeh] : n \in 0..MaxRelays}

PNext == /\ sc.kind = "none"
         /\ \E d \in Times, rs \in RelaySeqs, tcp \in {"off", "fail", "ok", "late"}, fa \in {Never, CHOOSE g \in Grid : TRUE},
               fn \in {Never, CHOOSE g \in Grid : TRUE}, dup \in BOOLEAN, s0 \in Scores, se \in BOOLEAN, dn \in BOOLEAN :
              LET s == [direct |-> d, relays |-> rs, tcp |-> tcp, foreignAck |-> fa, foreignNack |-> fn, dupAck |-> dup,
                        score0 |-> s0, sendErr |-> se, dupNack |-> dn]
              IN /\ (dup => d # Never)
                 /\ (dn => \E i \in DOMAIN rs : rs[i].nack)       \* every nack arrives twice (duplicated datagrams)
                 /\ (se => (d = Never /\ rs = <<>> /\ tcp = "off" /\ fa = Never /\ fn = Never))
                 /\ \A i \in DOMAIN rs : /\ (rs[i].nack <=> (rs[i].cap /\ (rs[i].ackAt = Never \/ rs[i].ackAt > 2 * PT)))
                                          /\ (rs[i].ackAt = Never \/ rs[i].ackAt > PT)
                 /\ sc' = [kind |-> "probe", s |-> s, out |-> Outcome(s)]
RNext == /\ sc.kind = "none"
         /\ \E w \in BOOLEAN, a \in {Never, 2, 6}, ok \in BOOLEAN, se \in BOOLEAN :
              \* sendErr: the relay's own ping to the target cannot be sent (a local failure): nothing comes back, and
              \* a nack that was asked for is still owed
              LET r == [wantNack |-> w, ackAt |-> a, seqOk |-> ok, sendErr |-> se] IN
              /\ (se => (a = Never /\ ok))
              /\ sc' = [kind |-> "relay", r |-> r, out |-> RelayOutcome(r)]
QNext == /\ sc.kind = "none"
         /\ \E pa \in {"udp", "tcp"}, nm \in {"self", "other", "none"}, sr \in {"given", "absent"} :
              LET p == [path |-> pa, named |-> nm, src |-> sr] IN
              sc' = [kind |-> "resp", p |-> p, out |-> RespOutcome(p)]
PSpec == PInit /\ [][PNext \/ RNext \/ QNext]_sc

\* a ping that names another node is never acknowledged; any other ping exactly once
Resp_Identity == sc.kind = "resp" => (sc.out.acks = (IF sc.p.named = "other" THEN 0 ELSE 1))

C19_OneNack == sc.kind = "relay" => (sc.out.nacks \in {0, 1} /\ (sc.out.nacks = 1 <=> (sc.r.wantNack /\ sc.out.relayedAcks = 0)))

\* C19 clauses on the outcome function
C19_Answered == sc.kind = "probe" /\ ~sc.s.sendErr =>
   (sc.out.answered <=> (InTime(sc.s.direct)
                          \/ (Escalated(sc.s) /\ \E i \in DOMAIN sc.s.relays : InTime(sc.s.relays[i].ackAt))
                          \/ (Escalated(sc.s) /\ sc.s.tcp = "ok")))
C19_Foreign == sc.kind = "probe" =>
   Outcome([sc.s EXCEPT !.foreignAck = Never, !.foreignNack = Never, !.dupAck = FALSE, !.dupNack = FALSE]) = sc.out
C19_Score == sc.kind = "probe" => (sc.out.score >= 0 /\ sc.out.score <= AwMax - 1)
C19_ScoreCause == sc.kind = "probe" =>
   /\ (sc.out.score > sc.s.score0 => ~sc.out.answered)
   /\ (sc.out.score < sc.s.score0 => sc.out.answered)

PDump == (sc.kind # "none") => PrintT(<<"E", ToJson(sc)>>)
=============================================================================
