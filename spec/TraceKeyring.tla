----------------------------- MODULE TraceKeyring -----------------------------
(***************************************************************************)
(* Judge of call sequences recorded from the real Keyring (one line per    *)
(* call: operation, key, result or panic, the ring and the primary as the  *)
(* public API shows them afterwards, one flag per key list handed out      *)
(* earlier, and for rotation traces the outcome of a real encrypt/decrypt  *)
(* exchange for every ordered pair of nodes).  State-logging: every line   *)
(* carries the ring the call started from (the previous reading of the     *)
(* real ring), the reference of KRRef is stepped from it, and every C17    *)
(* clause is evaluated on every line.  (Lines whose whole call history     *)
(* already produced the identical line may be absent: a case need not      *)
(* start at its first call.)                                               *)
(*   VERDICT  the recorded behaviour contradicts the property text         *)
(*   DRIFT    it differs from the reference in something the property does *)
(*            not ask for (order of the non-primary keys, a result code    *)
(*            the property does not fix, a NewKeyring that tolerates what  *)
(*            the reference refuses, a rotation schedule that is not the   *)
(*            documented procedure)                                        *)
(* After the first verdict in a case the rest of that case is skipped.     *)
(***************************************************************************)
EXTENDS KRRef, IOUtils

TraceFile == IOEnv.VERIF_TRACE
Trace == ndJsonDeserialize(TraceFile)

VARIABLES l,      \* next line
          rr,     \* node -> ring recorded by that node's latest line (used for rotation lines)
          gcase,  \* case of the previous line
          bad     \* a verdict was given in this case
tkvars == <<l, rr, gcase, bad>>

Report(kind, name, e, ok) == IF ok THEN TRUE ELSE PrintT(<<kind, name, l, e.case, e.i>>)

NoRings == ("#" :> <<>>)                   \* string-keyed function without any real node
Rec(ids, lens) == [i \in DOMAIN ids |-> Key(ids[i], lens[i])]

\* same ring as far as the property is concerned: same keys, same primary
SameContent(a, b) == /\ KRange(a) = KRange(b) /\ Len(a) = Len(b)
                     /\ (b # <<>> => (a # <<>> /\ a[1] = b[1]))

\* ---- the clauses, on one recorded call: cur = ring before, post = ring after, k = the key
C17_NoPanic(e)   == ~e.pan
\* (judged on the call that broke the ring: not again on calls that started from a broken one)
C17_Primary(e, cur, post) ==
  ((e.op = "N" \/ RingOK(cur)) /\ (e.ring # <<>> \/ e.prim # "")) =>
     /\ e.ring # <<>> /\ e.ring[1] = e.prim
     /\ KNoDups(post)
     /\ \A i \in DOMAIN post : ValidLen(post[i])
C17_Remove(e, cur, post, k) ==
  (e.op = "R" /\ cur # <<>> /\ k = cur[1]) => (post = cur /\ e.res = "error")
C17_Use(e, cur, post, k) ==
  e.op = "U" => \/ (k \in KRange(cur) /\ post # <<>> /\ post[1] = k /\ KRange(post) = KRange(cur))
                \/ (k \notin KRange(cur) /\ post = cur /\ e.res = "error")
\* the ring after the call is the one the reference yields (same keys, same primary).  The
\* result code alone is judged only where the property fixes it (C17_Remove, C17_Use);
\* elsewhere a differing code with the right ring is drift.
C17_Result(e, cur, post, ref) ==
  CASE e.op = "N" -> (ref.res = "ok" => SameContent(post, ref.keys))
    [] OTHER -> SameContent(post, ref.keys)
ResultCode(e, cur, ref) ==
  CASE e.op = "N" -> (ref.res = "ok" => e.res = "ok")
    [] e.op = "R" /\ cur = <<>> -> e.res \in {"ok", "error"}
    [] OTHER -> e.res = ref.res
C17_Snapshots(e) == \A i \in DOMAIN e.held : e.held[i]
\* rotation lines: do the rings as recorded let every node reach every node?
Reachable(R) == \A s, r \in DOMAIN R \ {"#"} : R[s] # <<>> /\ R[s][1] \in KRange(R[r])
C17_Rotation(e, R) == (e.nx > 0 /\ Reachable(R)) => e.xfail = <<>>

TInit == l = 1 /\ rr = NoRings /\ gcase = -1 /\ bad = FALSE

TStep ==
  /\ l <= Len(Trace)
  /\ LET e     == Trace[l]
         fresh == e.case # gcase
         R     == IF fresh THEN NoRings ELSE rr
         skip  == ~fresh /\ bad
     IN IF skip
        THEN UNCHANGED <<rr, bad>> /\ gcase' = e.case
        ELSE IF e.pan
        THEN /\ Report("VERDICT", "C17_NoPanic", e, FALSE)
             /\ bad' = TRUE /\ rr' = R /\ gcase' = e.case
        ELSE LET k    == Key(e.key, e.klen)
                 cur  == IF e.op = "N" THEN <<>> ELSE Rec(e.pre, e.plens)
                 post == Rec(e.ring, e.lens)
                 ref  == IF e.op = "N" THEN NewRef(Rec(e.nkeys, e.nlens), k) ELSE ApplyRef(e.op, cur, k)
                 R1   == (e.node :> post) @@ R
                 c1   == C17_Primary(e, cur, post)
                 c2   == C17_Remove(e, cur, post, k)
                 c3   == C17_Use(e, cur, post, k)
                 c4   == C17_Result(e, cur, post, ref)
                 c5   == C17_Snapshots(e)
                 c6   == C17_Rotation(e, R1)
                 good == c1 /\ c2 /\ c3 /\ c4 /\ c5 /\ c6
             IN /\ Report("VERDICT", "C17_Primary", e, c1)
                /\ Report("VERDICT", "C17_Remove", e, c2)
                /\ Report("VERDICT", "C17_Use", e, c3)
                /\ Report("VERDICT", "C17_Result", e, c4)
                /\ Report("VERDICT", "C17_Snapshots", e, c5)
                /\ Report("VERDICT", "C17_Rotation", e, c6)
                /\ Report("DRIFT", "result-code", e, ~(good /\ ~ResultCode(e, cur, ref)))
                /\ Report("DRIFT", "new-tolerates", e, ~(good /\ e.op = "N" /\ ref.res = "error" /\ e.res = "ok"))
                /\ Report("DRIFT", "secondary-order", e,
                          ~(good /\ ref.res = "ok" /\ e.res = "ok" /\ post # ref.keys))
                /\ Report("DRIFT", "rotation-schedule", e, ~(good /\ e.nx > 0 /\ ~Reachable(R1)))
                /\ rr' = R1
                /\ bad' = ~good
                /\ gcase' = e.case
  /\ l' = l + 1

TDone == /\ l = Len(Trace) + 1
         /\ PrintT(<<"DONE", Len(Trace)>>)
         /\ l' = l + 1 /\ UNCHANGED <<rr, gcase, bad>>

TSpec == TInit /\ [][TStep \/ TDone]_tkvars
=============================================================================
