-------------------------------- MODULE Pack --------------------------------
(***************************************************************************)
(* Packing of queued broadcasts into one outgoing packet (state.go gossip, *)
(* net.go sendMsg / rawSendMsgPacket, util.go makeCompoundMessage(s)),     *)
(* with all sizes scaled down so that TLC can enumerate every queue        *)
(* content: the byte budget handed to the queue, the greedy selection      *)
(* (BQRef), the frame that is assembled, the layers added afterwards, and  *)
(* what a receiver unpacks from it.                                        *)
(*                                                                         *)
(* Three switches describe the accounting of the implementation:           *)
(*   PrimaryBudgeted  sendMsg reserves the 2-byte length entry of the      *)
(*                    message the broadcasts ride on                       *)
(*   CrcBudgeted      both paths reserve the checksum header               *)
(*   SplitPiggy       sendMsg splits at the compound count limit the way   *)
(*                    gossip does                                          *)
(* With all three TRUE (the code after the C11 repairs) TLC proves         *)
(* C11_Budget and C11_Lossless for every case; with any of them FALSE it   *)
(* produces the overshoot / the wrapped count byte that the check found on *)
(* the original code (DESIGN.md §6, F9 F10).                               *)
(***************************************************************************)
EXTENDS BQRef

CONSTANTS Bufs,            \* packet sizes
          LabOs,           \* label header sizes (0 = no label)
          Lens,            \* broadcast lengths
          MaxQ,            \* queue size
          Prims,           \* sizes of the message the broadcasts ride on (piggyback path)
          CntLimit,        \* parts per compound message (255 in the code)
          CompoundHdr, EntryO, CrcO, EncFix, Blk,    \* frame overheads (2, 2, 5, 29, 16 in the code)
          PrimaryBudgeted, CrcBudgeted, SplitPiggy

EncBudget(enc) == IF enc = "none" THEN 0 ELSE IF enc = "v1" THEN EncFix ELSE EncFix + Blk
EncActual(enc, n) == IF enc = "none" THEN 0 ELSE IF enc = "v1" THEN EncFix ELSE EncFix + (Blk - (n % Blk))

Item(i, len) == [uid |-> i, kind |-> "unique", name |-> "", len |-> len, tr |-> 0, stamp |-> i]
QueueOf(lens) == {Item(i, lens[i]) : i \in DOMAIN lens}

RECURSIVE SumLens(_, _)
SumLens(s, i) == IF i > Len(s) THEN 0 ELSE s[i].len + SumLens(s, i + 1)

\* compound frame of parts (sequence of lengths): type + count + 2 per part + bodies
CompoundSize(lens) == CompoundHdr + EntryO * Len(lens) + (LET S[i \in 0..Len(lens)] == IF i = 0 THEN 0 ELSE S[i - 1] + lens[i] IN S[Len(lens)])

RECURSIVE Chunks(_, _)
Chunks(lens, k) == IF Len(lens) <= k THEN <<lens>> ELSE <<SubSeq(lens, 1, k)>> \o Chunks(SubSeq(lens, k + 1, Len(lens)), k)

\* a receiver reads `count mod (CntLimit + 1)` parts from a compound frame
Decoded(lens) == LET c == Len(lens) % (CntLimit + 1) IN SubSeq(lens, 1, c)

\* one case: returns [frames: sequence of [size, sent parts, received parts]]
Case(path, buf, lab, enc, vout, crc, prim, lens) ==
  LET encB  == IF path = "gossip" THEN EncBudget(enc) ELSE (IF vout THEN EncBudget(enc) ELSE 0)
      avail == IF path = "gossip"
               THEN buf - CompoundHdr - lab - encB - (IF CrcBudgeted THEN CrcO ELSE 0)
               ELSE buf - prim - CompoundHdr - (IF PrimaryBudgeted THEN EntryO ELSE 0) - lab - encB
                        - (IF CrcBudgeted THEN CrcO ELSE 0)
      picked == Greedy(QueueOf(lens), 0, EntryO, avail)
      plens  == [i \in DOMAIN picked |-> picked[i].len]
      parts  == IF path = "gossip" THEN plens ELSE <<prim>> \o plens
      groups == IF Len(parts) <= 1 THEN <<parts>>
                ELSE IF path = "gossip" \/ SplitPiggy THEN Chunks(parts, CntLimit) ELSE <<parts>>
      layer(n) == n + (IF crc THEN CrcO ELSE 0)
      wire(g) == LET pay == IF Len(g) = 1 /\ Len(parts) = 1 THEN g[1] ELSE CompoundSize(g)
                     inner == layer(pay)
                 IN inner + (IF enc # "none" /\ vout THEN EncActual(enc, inner) ELSE 0) + lab
  IN [i \in DOMAIN groups |->
        [size |-> wire(groups[i]), sent |-> groups[i],
         got |-> IF Len(groups[i]) = 1 /\ Len(parts) = 1 THEN groups[i] ELSE Decoded(groups[i])]]

VARIABLES pc
KInit == pc = [kind |-> "none"]
LensSeqs == UNION {[1..n -> Lens] : n \in 0..MaxQ}
KNext == /\ pc.kind = "none"
         /\ \E path \in {"gossip", "piggy"}, buf \in Bufs, lab \in LabOs, enc \in {"none", "v1", "v0"}, vout \in BOOLEAN,
               crc \in BOOLEAN, prim \in Prims, lens \in LensSeqs :
              /\ (path = "gossip" => prim = CHOOSE p \in Prims : TRUE)
              /\ (enc = "none" => vout)
              /\ (path = "gossip" => Len(lens) > 0)
              /\ pc' = [kind |-> "case", path |-> path, buf |-> buf, lab |-> lab, enc |-> enc, vout |-> vout, crc |-> crc,
                        prim |-> prim, lens |-> lens, frames |-> Case(path, buf, lab, enc, vout, crc, prim, lens)]
KSpec == KInit /\ [][KNext]_pc

C11_Budget   == pc.kind = "case" => \A i \in DOMAIN pc.frames : (Len(pc.frames[i].sent) > 0) => pc.frames[i].size <= pc.buf
C11_Lossless == pc.kind = "case" => \A i \in DOMAIN pc.frames : pc.frames[i].got = pc.frames[i].sent
=============================================================================
