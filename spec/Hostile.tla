------------------------------- MODULE Hostile -------------------------------
(***************************************************************************)
(* Hostile input: what a receiver must do with bytes that are not genuine  *)
(* traffic (net.go ingestPacket / handleCommand / handleConn / readStream /*)
(* readRemoteState / readUserMsg, util.go decodeCompoundMessage /          *)
(* decompressBuffer, security.go decryptPayload, label.go).                *)
(*                                                                         *)
(* An input is described by its STRUCTURE: the path it arrives on, the     *)
(* receiver's configuration, and one defect placed at one layer of an      *)
(* otherwise well-formed envelope.  For every such class the receiver must *)
(*   - not panic, and finish handling it (a stream handler within the      *)
(*     stream timeout) without leaking a goroutine;                        *)
(*   - leave its membership untouched when the input cannot be decoded;    *)
(*   - refuse a declared size beyond a documented cap BEFORE buffering the *)
(*     data (it reads no more than the declaring header).                  *)
(* TLC enumerates the classes and checks that the model's receiver (the    *)
(* layer order of WireRef plus the caps) satisfies these clauses; the      *)
(* harness turns every class into concrete byte strings - and additionally *)
(* every single-byte mutation and every truncation of genuine frames - and *)
(* fires them at a real node.                                              *)
(***************************************************************************)
EXTENDS Integers, Sequences, FiniteSets, TLC, Json

Paths == {"packet", "stream"}
RCfgs == {"plain", "labeled", "sealed-verify", "sealed-lenient"}
\* layer at which the defect sits and what it is
Defects == {
  [layer |-> "label",    kind |-> "truncated"],       \* header announces more label bytes than there are
  [layer |-> "label",    kind |-> "empty"],           \* header with length 0
  [layer |-> "enc",      kind |-> "truncated"],       \* shorter than version + nonce + tag
  [layer |-> "enc",      kind |-> "badversion"],      \* version byte above the maximum
  [layer |-> "enc",      kind |-> "oversize"],        \* stream: declared ciphertext length above the cap
  [layer |-> "crc",      kind |-> "badsum"],
  [layer |-> "crc",      kind |-> "truncated"],
  [layer |-> "compress", kind |-> "bomb"],            \* expands beyond the decompression cap
  [layer |-> "compress", kind |-> "garbage"],         \* not an LZW stream
  [layer |-> "compress", kind |-> "nested"],          \* compressed message inside a compressed message, repeatedly
  [layer |-> "compress", kind |-> "unknownalgo"],
  [layer |-> "compound", kind |-> "truncated"],       \* fewer length entries / bytes than announced
  [layer |-> "compound", kind |-> "nested"],          \* compound inside compound, repeatedly
  [layer |-> "compound", kind |-> "empty"],
  [layer |-> "body",     kind |-> "truncated"],       \* msgpack body cut short
  [layer |-> "body",     kind |-> "wrongtype"],       \* well-formed msgpack of another shape
  [layer |-> "body",     kind |-> "unknownmsg"],      \* unknown message type byte
  [layer |-> "body",     kind |-> "empty"],           \* no bytes at all / only a type byte
  [layer |-> "pushpull", kind |-> "nodecap"],         \* stream: node count above the cap
  [layer |-> "pushpull", kind |-> "negative"],        \* stream: negative counts / lengths
  [layer |-> "pushpull", kind |-> "usercap"],         \* stream: user state length above the cap
  [layer |-> "pushpull", kind |-> "concurrent"],      \* stream: one push/pull more than the cap on concurrent ones
  [layer |-> "handoff",  kind |-> "flood"],           \* packet: more queued messages than the handoff queue depth
  [layer |-> "usermsg",  kind |-> "cap"],             \* stream: user message length above the cap
  [layer |-> "usermsg",  kind |-> "short"],           \* stream: fewer bytes than announced, then silence
  [layer |-> "stream",   kind |-> "silent"],          \* connect and send nothing
  [layer |-> "stream",   kind |-> "slow"] }           \* first byte, then nothing

StreamOnly(d) == d.layer \in {"pushpull", "usermsg", "stream"} \/ (d.layer = "enc" /\ d.kind = "oversize")
PacketOnly(d) == d.layer = "crc" \/ d.layer = "compound" \/ d.layer = "handoff"

\* does the class declare a size beyond a cap
DeclaresOversize(d) == d.kind \in {"oversize", "nodecap", "usercap", "cap", "bomb", "concurrent", "flood"}

\* the model receiver: every class ends in a drop; caps are checked on the declaring header
Handle(path, cfg, d) ==
  [dropped |-> TRUE,
   membershipTouched |-> FALSE,
   queued |-> "at-most-depth",              \* handoff: what exceeds the queue depth is dropped, not queued
   readBeyondHeader |-> FALSE,              \* oversize declarations: nothing after the header is consumed
   waitsFor |-> IF d.layer = "stream" \/ d.kind = "short" THEN "timeout" ELSE "nothing",
   reply |-> IF path = "stream" /\ d.layer \notin {"stream", "label"} /\ ~(d.layer = "usermsg")
             THEN "error-or-none" ELSE "none"]

VARIABLES hc
HInit == hc = [kind |-> "none"]
HNext == /\ hc.kind = "none"
         /\ \E p \in Paths, c \in RCfgs, d \in Defects :
              /\ (StreamOnly(d) => p = "stream")
              /\ (PacketOnly(d) => p = "packet")
              /\ (d.layer = "label" => c = "labeled")
              /\ (d.layer = "enc" => c \in {"sealed-verify", "sealed-lenient"})
              \* (a sealed stream is read and opened as a whole before its message type is known: the
              \* concurrency cap cannot be observed on it from outside)
              /\ (d.kind = "concurrent" => c \in {"plain", "labeled"})
              /\ hc' = [kind |-> "class", path |-> p, cfg |-> c, layer |-> d.layer, defect |-> d.kind,
                        oversize |-> DeclaresOversize(d), out |-> Handle(p, c, d)]
HSpec == HInit /\ [][HNext]_hc

C13_Dropped        == hc.kind = "class" => hc.out.dropped /\ ~hc.out.membershipTouched
C13_CapBeforeRead  == hc.kind = "class" /\ hc.oversize => ~hc.out.readBeyondHeader
C13_NoHang         == hc.kind = "class" => hc.out.waitsFor \in {"nothing", "timeout"}

HDump == (hc.kind = "class") => PrintT(<<"E", ToJson(hc)>>)
=============================================================================
