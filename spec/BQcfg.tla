------------------------------- MODULE BQcfg -------------------------------
EXTENDS BcastQueue
B(u, k, n, l) == [uid |-> u, kind |-> k, name |-> n, len |-> l]
PoolQ == {B("b1", "named", "x", 3), B("b2", "named", "x", 3), B("b3", "unique", "", 3),
          B("b4", "plain", "g", 2), B("b5", "plain", "g", 3), B("b6", "named", "", 1)}
G(o, l, n) == [overhead |-> o, limit |-> l, n |-> n]
GetsQ == {G(2, 1000, 1), G(2, 5, 1), G(2, 1000, 10), G(0, 4, 10)}
PrunesQ == {0, 1}
MultsQ == {1, 2}
MultsT == {0, 1, 2}
\* the model check ignores the history (the generator does not)
BQView == <<items, clock, fin, everQ, mult, Len(hist), last>>
=============================================================================
