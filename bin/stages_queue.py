"""C10: BcastQueue reference model -> every operation sequence replayed on the real queue -> TLC judges."""
import json
import os

import vlib
from vlib import Infra, log
from stages_view import judge_chunked


def queue_key(formula, line, prev):
    e = json.loads(line)
    ctx = ""
    if formula == "C10_NoPanic":
        ctx = ":untouched" if e["i"] == 1 or (prev and json.loads(prev)["nq"] == 0) else ":nonempty"
    return "%s:%s%s" % (formula, {"Q": "Queue", "G": "Get", "P": "Prune", "R": "Reset"}[e["op"]], ctx)


def judge_q(work, trace, njvm):
    with open(trace) as fh:
        total = sum(1 for _ in fh)
    # cases must not be split across chunks: chunk on case boundaries
    chunk = 150000
    if total <= chunk:
        return vlib.judge(work, "TraceQueue", "TraceQueue.cfg", trace)
    from concurrent.futures import ThreadPoolExecutor
    parts, out, n, k, last_case = [], None, 0, 0, None
    with open(trace) as fh:
        for ln, line in enumerate(fh):
            case = line[line.index('"case":') + 7:line.index(',', line.index('"case":'))]
            if out is None or (n >= chunk and case != last_case):
                if out:
                    out.close()
                k += 1
                p = "%s.part%d" % (trace, k)
                parts.append((p, ln))
                out = open(p, "w")
                n = 0
            out.write(line)
            n += 1
            last_case = case
    out.close()
    agg = {"verdicts": [], "drift": [], "lines": 0, "stats": {}, "wall_s": 0}
    with ThreadPoolExecutor(max_workers=max(1, njvm)) as ex:
        for (p, off), j in zip(parts, ex.map(lambda pq: vlib.judge(work, "TraceQueue", "TraceQueue.cfg", pq[0]), parts)):
            agg["verdicts"] += [(f, l + off, c, g) for (f, l, c, g) in j["verdicts"]]
            agg["drift"] += [(f, l + off, c, g) for (f, l, c, g) in j["drift"]]
            agg["lines"] += j["lines"]
            os.remove(p)
    return agg


def queue_stage(work, res, tier, replay=None):
    binp = vlib.build_harness(work)
    traces = []
    if replay:
        paths = replay + ".paths"
        if not os.path.exists(paths):
            raise Infra("no path file next to " + replay)
        d = work.sub("qreplay")
        tr = os.path.join(d, "trace.ndjson")
        vlib.run_harness(work, binp, "TestVerifQueueReplay", {"VERIF_PATHS": paths, "VERIF_TRACE": tr})
        traces.append((tr, paths, "replay"))
    else:
        r = vlib.model_check(work, "BQcfg", "BQ_model.cfg")
        res.add_model(r)
        log("model BQ_model.cfg: %d states, %d transitions" % (r["states"], r["transitions"]))
        gen = "BQ_gen4.cfg" if tier == "quick" else "BQ_gen5.cfg"
        paths = work.path("qpaths.ndjson")
        n = vlib.generate(work, "BQcfg", gen, paths)
        log("generated %d operation sequences from %s" % (n, gen))
        d = work.sub("qreplay")
        nsh = min(vlib.NCPU, 16)
        vlib.run_sharded(work, binp, "TestVerifQueueReplay", nsh,
                         lambda i: {"VERIF_PATHS": paths, "VERIF_TRACE": os.path.join(d, "t%d.ndjson" % i)})
        tr = os.path.join(d, "trace.ndjson")
        with open(tr, "w") as out:
            for i in range(nsh):
                with open(os.path.join(d, "t%d.ndjson" % i)) as fh:
                    for line in fh:
                        out.write(line)
                os.remove(os.path.join(d, "t%d.ndjson" % i))
        traces.append((tr, paths, "tlc-sequences"))
        res.cov["traces_validated_against_impl"] += n
        # code -> spec: seeded random sequences with larger domains
        count = 3000 if tier == "quick" else 40000
        rt = os.path.join(d, "random.ndjson")
        vlib.run_harness(work, binp, "TestVerifQueueRandom", {"VERIF_TRACE": rt, "VERIF_COUNT": count})
        traces.append((rt, None, "random"))
        res.cov["traces_validated_against_impl"] += count

    classes = set()
    for tr, paths, what in traces:
        j = judge_q(work, tr, min(vlib.NCPU, 12))
        res.cov["evaluations"] += j["lines"]
        res.cov["drift"] += len(j["drift"])
        if j["drift"]:
            log("DRIFT module=BcastQueue what=%s steps=%d (not a verdict)" %
                (",".join(sorted(set(d[0] for d in j["drift"]))), len(j["drift"])))
        if j["verdicts"]:
            want = set()
            for f, ln, c, g in j["verdicts"]:
                want.add(ln)
                want.add(ln - 1)
            lines = vlib.read_lines(tr, [x for x in want if x > 0])
            firsts = {}
            for f, ln, case, i in j["verdicts"]:
                key = queue_key(f, lines[ln], lines.get(ln - 1) if i > 1 else None)
                firsts.setdefault(key, (f, ln, case, i))
            for key, (f, ln, case, i) in firsts.items():
                seq = vlib.read_lines(tr, range(ln - i + 1, ln + 1))
                n0 = len(res.violations)
                res.violation(f, key, [seq[k] for k in sorted(seq)], what="source=%s" % what)
                if len(res.violations) > n0 and res.violations[-1][2]:
                    ops = [json.loads(seq[k]) for k in sorted(seq)]
                    path = {"mult": ops[0]["mult"],
                            "ops": [{k: o[k] for k in ("op", "uid", "kind", "name", "len", "overhead", "limit", "n", "k")}
                                    for o in ops]}
                    with open(res.violations[-1][2] + ".paths", "w") as fh:
                        fh.write(json.dumps(path) + "\n")
        # distinct non-trivial: distinct (op, result-shape) classes among the judged lines
        with open(tr) as fh:
            for k, line in enumerate(fh):
                e = json.loads(line)
                if e["op"] == "G" and e["res"]:
                    classes.add(("G", len(e["res"]), len(e["done"]), e["overhead"], e["limit"], e["n"], e["mult"]))
                elif e["done"]:
                    classes.add((e["op"], len(e["done"]), e["kind"]))
                if k in (3, 40000) and len(res.cov["samples"]) < 3:
                    res.cov["samples"].append({a: e[a] for a in ("case", "i", "mult", "op", "uid", "kind", "name", "len",
                                                                "overhead", "limit", "n", "k", "res", "done", "nq")})
    res.cov["distinct_nontrivial"] = len(classes)
    res.assumptions += [
        "reference semantics: spec/BQRef.tla (greedy selection = fewest transmits, then largest, then newest that fits)",
        "broadcast payload contents are irrelevant to the queue; lengths 1..40 bytes",
        "Prune order is not part of the property: which broadcasts Prune completes is taken from the recording "
        "(count and exactly-once are judged), a different order than the reference is reported as drift",
    ]
