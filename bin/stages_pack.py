"""C11: Pack model (accounting) checked by TLC; real-size packing cases run on real nodes; TLC judges."""
import json
import os
import random

import vlib
from vlib import Infra, log


def pack_cases(tier, seed):
    rng = random.Random("C11-%s-%d" % (tier, seed))
    cases = []
    bufs = (256, 1400) if tier == "quick" else (256, 512, 1400, 9000)
    for path in ("gossip", "piggy"):
        for buf in bufs:
            for lab in (0, 1, 255):
                # (encryption, sender seals, sender verifies incoming): the last two settings are independent
                for enc, vout, vin in (("none", True, True), ("v1", True, True), ("v0", True, True), ("v1", False, False),
                                       ("v1", True, False), ("v0", True, False)):
                    for crc in (False, True):
                        if lab == 255 and buf < 512:
                            continue
                        base = dict(path=path, buf=buf, labelLen=lab, enc=enc, vout=vout, vin=vin, crc=crc, comp=False)
                        cases.append(dict(base, member=[], user=[], fillUser=True))            # one message filling the budget
                        cases.append(dict(base, member=[10, 10, 40], user=[], fillUser=True))  # members + filler
                        cases.append(dict(base, member=[], user=[1] * (400 if buf < 9000 else 1500), fillUser=False))  # > 255 tiny
                        n = 3 if tier == "quick" else 12
                        for _ in range(n):
                            cases.append(dict(base, comp=rng.random() < 0.3,
                                              member=[rng.randrange(0, 200) for _ in range(rng.randrange(0, 8))],
                                              user=[rng.choice([1, 2, 3, 17, 80, 300]) for _ in range(rng.randrange(0, 40))],
                                              fillUser=rng.random() < 0.5))
    # the padded format (encryption version 0): the ciphertext length depends on the plaintext length modulo the cipher
    # block, and the budget has to allow for a whole block of padding - 16 consecutive packet sizes, filled to the byte,
    # meet every alignment (also with version 1, which does not pad)
    for path in ("gossip", "piggy"):
        for buf in range(1400, 1416) if tier == "quick" else list(range(1400, 1416)) + list(range(692, 708)):
            for lab in (0, 10):
                for enc in ("v0", "v1"):
                    for crc in (False, True):
                        base = dict(path=path, buf=buf, labelLen=lab, enc=enc, vout=True, vin=True, crc=crc, comp=False)
                        cases.append(dict(base, member=[], user=[], fillUser=True))
                        cases.append(dict(base, member=[10, 40], user=[], fillUser=True))
    return cases


def pack_key(formula, line):
    e = json.loads(line)
    return "%s:%s:%s%s%s" % (formula, e["path"], "crc" if e["crc"] else "nocrc",
                               ":sealed" if e["enc"] != "none" and e["vout"] else "",
                               ":over255" if len(e["packed"]) > 254 else "")


def pack_stage(work, res, tier, replay=None):
    binp = vlib.build_harness(work)
    d = work.sub("pack")
    cases = os.path.join(d, "cases.ndjson")
    if replay:
        src = replay + ".case"
        if not os.path.exists(src):
            raise Infra("no case file next to " + replay)
        open(cases, "w").write(open(src).read())
        total = 1
    else:
        r = vlib.model_check(work, "Pack", "Pack_fixed.cfg", workers=4)
        res.add_model(r)
        log("model Pack_fixed.cfg: %d cases of the scaled accounting checked" % r["states"])
        cs = pack_cases(tier, vlib.SEED)
        with open(cases, "w") as fh:
            for c in cs:
                fh.write(json.dumps(c) + "\n")
        total = len(cs)
    nsh = max(1, min(vlib.NCPU, 16, total // 20 + 1))
    vlib.run_sharded(work, binp, "TestVerifPacking", nsh,
                     lambda i: {"VERIF_CASES": cases, "VERIF_TRACE": os.path.join(d, "t%d.ndjson" % i)})
    trace = os.path.join(d, "trace.ndjson")
    with open(trace, "w") as out:
        for i in range(nsh):
            out.write(open(os.path.join(d, "t%d.ndjson" % i)).read())
    j = vlib.judge(work, "TracePack", "TracePack.cfg", trace)
    res.cov["traces_validated_against_impl"] += j["lines"]
    res.cov["evaluations"] += j["lines"]
    res.cov["drift"] += len(j["drift"])
    res.cov["pack"] = {k: v[0] for k, v in sorted(j["stat2"].items())}
    if j["drift"]:
        log("DRIFT module=Pack what=budget cases=%d (the byte budget handed to the queue differs from the model's accounting; "
            "not a verdict)" % len(j["drift"]))
    if j["verdicts"]:
        lines = vlib.read_lines(trace, [v[1] for v in j["verdicts"]])
        for formula, ln, case, _ in j["verdicts"]:
            key = pack_key(formula, lines[ln])
            n0 = len(res.violations)
            res.violation(formula, key, [lines[ln]])
            if len(res.violations) > n0 and res.violations[-1][2]:
                e = json.loads(lines[ln])
                c = {k: e[k] for k in ("path", "buf", "labelLen", "enc", "vout", "vin", "crc", "comp", "member", "user", "fillUser")}
                open(res.violations[-1][2] + ".case", "w").write(json.dumps(c) + "\n")
    classes = set()
    with open(trace) as fh:
        for k, line in enumerate(fh):
            e = json.loads(line)
            slack = (e["buf"] - max(e["frames"])) if e["frames"] else -1
            classes.add((e["path"], e["buf"], e["labelLen"], e["enc"], e["vout"], e["crc"], min(len(e["packed"]), 300) // 50,
                         "tight" if 0 <= slack <= 8 else "loose"))
            if k in (0, 2, 30) and len(res.cov["samples"]) < 3:
                e2 = dict(e)
                e2["user"] = e2["user"][:8]
                e2["packed"] = e2["packed"][:12]
                res.cov["samples"].append(e2)
    res.cov["distinct_nontrivial"] = len(classes)
    res.assumptions += [
        "the scaled Pack model proves the accounting for every queue content up to 5 messages; real sizes (UDPBufferSize 256 / "
        "1400 / 9000, labels of 0 / 1 / 255 bytes, encryption versions 0 / 1, checksum, > 255 one-byte user broadcasts, "
        "a message that fills the budget to the byte) are exercised on real nodes",
        "user broadcasts come from a delegate that fills the limit it is given exactly",
    ]
