// census lists the call sites in a Go package directory through which bytes reach the transport or a
// stream: every call of one of the funnel functions (stdlib go/ast only).  Output: one JSON object per
// line {file, start, end, callee, in}.  Used by the C15 check to report which send sites the executed
// cases and simulations reached.
package main

import (
	"encoding/json"
	"fmt"
	"go/ast"
	"go/parser"
	"go/token"
	"os"
	"path/filepath"
	"sort"
	"strings"
)

var funnel = map[string]bool{
	"rawSendMsgPacket": true, "rawSendMsgStream": true, "sendMsg": true, "encodeAndSendMsg": true,
	"sendUserMsg": true, "sendLocalState": true, "sendAndReceiveState": true, "sendPingAndWaitForAck": true,
	"WriteToAddress": true, "WriteTo": true,
}

type site struct {
	File   string `json:"file"`
	Start  int    `json:"start"`
	End    int    `json:"end"`
	Callee string `json:"callee"`
	In     string `json:"in"`
}

func main() {
	dir := os.Args[1]
	files, _ := filepath.Glob(filepath.Join(dir, "*.go"))
	sort.Strings(files)
	fset := token.NewFileSet()
	enc := json.NewEncoder(os.Stdout)
	for _, f := range files {
		base := filepath.Base(f)
		if strings.HasSuffix(base, "_test.go") || strings.HasPrefix(base, "verif_") || strings.HasPrefix(base, "zz_verif") ||
			base == "mock_transport.go" || base == "net_transport.go" {
			continue
		}
		af, err := parser.ParseFile(fset, f, nil, 0)
		if err != nil {
			fmt.Fprintln(os.Stderr, err)
			os.Exit(2)
		}
		for _, d := range af.Decls {
			fd, ok := d.(*ast.FuncDecl)
			if !ok || fd.Body == nil {
				continue
			}
			ast.Inspect(fd.Body, func(n ast.Node) bool {
				call, ok := n.(*ast.CallExpr)
				if !ok {
					return true
				}
				name, recv := "", ""
				switch fn := call.Fun.(type) {
				case *ast.SelectorExpr:
					name = fn.Sel.Name
					if id, ok := fn.X.(*ast.Ident); ok {
						recv = id.Name
					}
				case *ast.Ident:
					name = fn.Name
				}
				// conn.Write: a write to a stream connection
				if funnel[name] || (name == "Write" && recv == "conn") {
					_ = enc.Encode(site{File: base, Start: fset.Position(call.Pos()).Line, End: fset.Position(call.End()).Line,
						Callee: name, In: fd.Name.Name})
				}
				return true
			})
		}
	}
}
