"""C13: hostile input classes (Hostile model) and byte campaigns on genuine frames, fired at a real node; TLC judges."""
import json
import os
import subprocess

import vlib
from vlib import Infra, log


def hostile_key(formula, line):
    e = json.loads(line)
    if e["ev"] == "WireCase":
        return "%s:campaign:%s.%s" % (formula, e["path"], e["msg"])
    return "%s:%s:%s:%s" % (formula, e["path"], e["layer"], e["defect"])


def run_journaled(work, binp, test, cases, d, nsh, mkpanic, tag):
    pend = [{"i": i, "resume": 0, "tries": 0} for i in range(nsh)]
    while pend:
        procs = []
        for p in pend:
            e = vlib.goenv()
            e.update({"VERIF_CASES": cases, "VERIF_TRACE": os.path.join(d, "%s%d.ndjson" % (tag, p["i"])),
                      "VERIF_JOURNAL": os.path.join(d, "%sj%d" % (tag, p["i"])), "VERIF_RESUME": str(p["resume"]),
                      "VERIF_SHARD": "%d/%d" % (p["i"], nsh), "VERIF_SEED": str(vlib.SEED),
                      "VERIF_TIER": os.environ.get("VERIF_TIER_EFFECTIVE", "quick")})
            out = open(os.path.join(d, "%so%d.txt" % (tag, p["i"])), "w")
            cmd = [binp, "-test.run", "^%s$" % test, "-test.timeout", "6000s", "-test.count", "1"]
            procs.append((p, subprocess.Popen(cmd, cwd=vlib.REPO, env=e, stdout=out, stderr=subprocess.STDOUT), out))
        pend = []
        for p, proc, out in procs:
            rc = proc.wait()
            out.close()
            if rc == 0:
                continue
            txt = open(out.name).read()
            p["tries"] += 1
            jp = os.path.join(d, "%sj%d" % (tag, p["i"]))
            if not os.path.exists(jp) or p["tries"] > 60:
                raise Infra("%s shard %d failed (rc=%d):\n%s" % (test, p["i"], rc, txt[-2500:]))
            case = int(open(jp).read().strip())
            first = [l for l in txt.splitlines() if l.startswith("panic:") or "deadlock" in l or l.startswith("fatal error")]
            with open(cases) as fh:
                cl = [l for k, l in enumerate(fh, 1) if k == case][0]
            rec = mkpanic(case, json.loads(cl), (first[0] if first else "process died")[:200])
            with open(os.path.join(d, "%s%d.ndjson" % (tag, p["i"])), "a") as fh:
                fh.write(json.dumps(rec) + "\n")
            log("%s shard %d died on case %d (%s); resuming" % (test, p["i"], case, rec["panic"]))
            p["resume"] = case
            pend.append(p)


def hostile_stage(work, res, tier, replay=None):
    os.environ["VERIF_TIER_EFFECTIVE"] = tier
    binp = vlib.build_harness(work)
    d = work.sub("hostile")
    classes = os.path.join(d, "classes.ndjson")
    campaigns = os.path.join(d, "campaigns.ndjson")
    if replay:
        src = replay + ".case"
        if not os.path.exists(src):
            raise Infra("no case file next to " + replay)
        c = json.loads(open(src).read())
        open(classes if "layer" in c else campaigns, "w").write(json.dumps(c) + "\n")
        open(campaigns if "layer" in c else classes, "w").write("")
    else:
        r = vlib.model_check(work, "Hostile", "Hostile_model.cfg", workers=2)
        res.add_model(r)
        n = vlib.generate(work, "Hostile", "Hostile_gen.cfg", classes)
        log("model Hostile: %d input classes" % n)
        # byte campaigns: genuine frames of every message class under four receiver configurations
        cfgs = [
            ({"label": "", "skip": False, "keys": [], "vin": True, "vout": True, "proto": 2, "comp": False},) * 2,
            ({"label": "blue", "skip": False, "keys": ["k1"], "vin": True, "vout": True, "proto": 2, "comp": True},) * 2,
            ({"label": "", "skip": False, "keys": ["k1"], "vin": True, "vout": True, "proto": 1, "comp": False},
             {"label": "", "skip": False, "keys": ["k2", "k1"], "vin": True, "vout": True, "proto": 2, "comp": False}),
            ({"label": "", "skip": False, "keys": ["k1"], "vin": True, "vout": True, "proto": 2, "comp": False},
             {"label": "", "skip": False, "keys": ["k1"], "vin": False, "vout": True, "proto": 2, "comp": False}),
        ]
        msgs = [("packet", m) for m in ("user", "alive", "ping", "compound")] + \
               [("stream", m) for m in ("userstream", "pushpull", "tcpping")]
        if tier == "quick":
            cfgs = cfgs[:3]
            msgs = [("packet", "user"), ("packet", "alive"), ("packet", "compound"), ("stream", "pushpull")]
        with open(campaigns, "w") as fh:
            for s_, r_ in cfgs:
                for path, m in msgs:
                    fh.write(json.dumps({"s": s_, "r": r_, "msg": m, "path": path, "peerCrc": path == "packet", "shrinks": False,
                                         "attack": "campaign", "foreignKey": "k3", "otherLabel": ""}) + "\n")
    traces = []

    def panic_class(case, c, msg):
        return {"ev": "HostileCase", "case": case, "path": c["path"], "cfg": c["cfg"], "layer": c["layer"], "defect": c["defect"],
                "oversize": c["oversize"], "variant": -1, "len": 0, "headerLen": 0, "accepted": 0, "offered": 0, "changed": False,
                "reply": "none", "closedMs": 0, "timeoutMs": 0, "panic": msg}

    def panic_campaign(case, c, msg):
        rec = {"ev": "WireCase", "case": case, "frames": 1, "wireLen": 0, "sealed": True, "canary": False, "sentDigest": "",
               "acted": False, "delivered": "", "reply": "none", "nodeOps": 0, "mutated": True, "note": "process died",
               "panic": msg, "injected": 0, "actedMut": 0, "actedVersion": 0, "changedMut": 0, "replyFrames": 0, "replySealed": True}
        rec.update(c)
        return rec
    ncl = sum(1 for _ in open(classes))
    nca = sum(1 for _ in open(campaigns))
    if ncl:
        run_journaled(work, binp, "TestVerifHostile", classes, d, max(1, min(8, ncl // 8 + 1)), panic_class, "h")
    if nca:
        run_journaled(work, binp, "TestVerifWireCases", campaigns, d, max(1, min(vlib.NCPU, 16, nca)), panic_campaign, "c")
    trace = os.path.join(d, "trace.ndjson")
    with open(trace, "w") as out:
        for f in sorted(os.listdir(d)):
            if f.endswith(".ndjson") and f[0] in "hc" and f not in ("classes.ndjson", "campaigns.ndjson"):
                out.write(open(os.path.join(d, f)).read())
    j = vlib.judge(work, "TraceHostile", "TraceHostile.cfg", trace)
    res.cov["evaluations"] += j["lines"]
    res.cov["traces_validated_against_impl"] += j["lines"]
    inj = j["stat2"].get("C13_campaign_inputs", [0, 0])[0]
    res.cov["campaign_inputs"] = inj
    res.cov["classes"] = {k: v[0] for k, v in sorted(j["stat2"].items()) if k != "C13_campaign_inputs"}
    mine = [v for v in j["verdicts"] if v[0].startswith("C13_")]
    if mine:
        lines = vlib.read_lines(trace, [v[1] for v in mine])
        for formula, ln, case, _ in mine:
            key = hostile_key(formula, lines[ln])
            n0 = len(res.violations)
            res.violation(formula, key, [lines[ln]])
            if len(res.violations) > n0 and res.violations[-1][2]:
                e = json.loads(lines[ln])
                src = campaigns if e["ev"] == "WireCase" else classes
                with open(src) as fh:
                    for k, cl in enumerate(fh, 1):
                        if k == case:
                            open(res.violations[-1][2] + ".case", "w").write(cl)
    with open(trace) as fh:
        for k, line in enumerate(fh):
            e = json.loads(line)
            if len(res.cov["samples"]) < 3 and k % 60 == 5:
                res.cov["samples"].append({a: e.get(a) for a in ("ev", "path", "cfg", "layer", "defect", "len", "accepted", "reply",
                                                                 "closedMs", "msg", "injected", "actedMut")})
    res.cov["evaluations"] += inj
    res.cov["distinct_nontrivial"] = len(res.cov["classes"]) + nca
    res.assumptions += [
        "fault enumeration, not proof: the structural classes of spec/Hostile.tla are concretised by a handful of byte strings "
        "each; genuine frames get every truncation, all 255 values for label / encryption header bytes and 8 XOR patterns "
        "(thorough: all 255) for every other byte; arbitrary unstructured strings are not enumerated",
        "a panic in a listener goroutine kills the harness process; the driver attributes it to the journalled input and resumes",
        "memory use of decompression is not measured; the decompression cap is judged by the absence of effects and of a panic",
    ]
