"""MemberView stage: bounded models -> every edge replayed on the real code -> TLC judges the trace."""
import json
import os

import vlib
from vlib import Infra, log

TIERS = {
    # (model cfgs, generator cfgs, concretisation variants)
    # (model cfgs, generator cfgs, concretisation variants per cfg)
    "quick": (["MV_peer_q.cfg", "MV_self_q.cfg", "MV_k_q.cfg"], ["MV_peer_q_gen.cfg", "MV_self_q_gen.cfg", "MV_k_q_gen.cfg"],
              [[0, 1, 100], [0, 2], [0]]),
    "thorough": (["MV_peer_t.cfg", "MV_self_t.cfg", "MV_k_t.cfg"],
                 ["MV_peer_t_gen.cfg", "MV_self_t_gen.cfg", "MV_k_t_gen.cfg"], [[0, 1, 2, 100], [0, 1, 2], [0, 1]]),
}


def step_key(formula, line):
    """abstract identity of a failing step: formula + the step's class, never seeds, bytes or counts"""
    e = json.loads(line)
    if e.get("ev") != "NodeOp":
        return "%s:%s" % (formula, e.get("ev"))
    c, pre = e["claim"], e["pre"]
    rel = "lt" if c["inc"] < pre["inc"] else ("gt" if c["inc"] > pre["inc"] else "eq")
    addr = "new" if pre["state"] == "absent" else (
        "otheraddr" if e["op"] == "alive" and (c["addr"] != pre["addr"] or c["port"] != pre["port"]) else "sameaddr")
    who = "self" if c["node"] == e["n"] else "peer"
    return "%s:%s.%s.%s:%s:%s:%s:%s%s%s" % (formula, e["op"], e["via"], c["kind"], pre["state"], rel, addr, who,
                                             ".boot" if e["boot"] else "", ".leaving" if e["leave"] else "")


def view_stage(work, res, tier, prefixes, replay=None):
    from concurrent.futures import ThreadPoolExecutor
    models, gens, variants = TIERS[tier]
    binp = vlib.build_harness(work)

    if replay:
        # re-execute the saved edges against the current tree, then judge
        edges = replay + ".edges"
        if not os.path.exists(edges):
            raise Infra("no edge file next to " + replay)
        variant = 0
        if os.path.exists(replay + ".variant"):
            variant = int(open(replay + ".variant").read().strip() or 0)
        tr = replay_edges(work, binp, edges, variant, 1)
        tr["judged"] = vlib.judge(work, "TraceView", "TraceView.cfg", tr["trace"])
        traces = [tr]
    else:
        per = max(1, min(vlib.NCPU, 16) // len(models))

        def pipeline(i):
            edges = work.path("edges_%s.ndjson" % gens[i][:-4])
            with ThreadPoolExecutor(max_workers=2) as ex2:     # model check and edge generation side by side
                fm = ex2.submit(vlib.model_check, work, "MVcfg", models[i], 1800, max(1, per - 1))
                fg = ex2.submit(vlib.generate, work, "MVcfg", gens[i], edges)
                r, n = fm.result(), fg.result()
            log("model %s: %d states, %d transitions, %.0fs; %d edges generated" %
                (models[i], r["states"], r["transitions"], r["wall_s"], n))
            out = []
            for v in variants[i]:
                if v == 100 and not any(p in ("C01_", "C07_") for p in prefixes):
                    continue      # the overlap mode serves the clauses of C01 and C07
                tr = replay_edges(work, binp, edges, v, per, sample=(1.0 if v == 0 else (0.34 if tier == "quick" else (1.0 if v == 100 else 0.2))))
                tr["judged"] = judge_chunked(work, tr["trace"], per)
                log("judged %d lines of %s (variant %s)" % (tr["judged"]["lines"], gens[i], tr["variant"]))
                out.append(tr)
            return r, out

        traces = []
        ov = any(p in ("C01_", "C07_") for p in prefixes)
        cached = cache_load(tier, ov)
        if cached:
            # The six membership properties share this stage.  Its result for exactly this tree, this machinery, tier and
            # seed was computed by an earlier thorough check and contained no verdict of any property: it is reused.
            log("view stage: result for this tree reused from %s (computed %s; identical sources, tier, seed)" %
                (cached["path"], cached["computed_at"]))
            res.cov["reused_view_stage"] = {"key": cached["key"], "computed_at": cached["computed_at"]}
            for r in cached["models"]:
                res.add_model(r)
            traces = cached["traces"]
        else:
            rs = []
            with ThreadPoolExecutor(max_workers=len(models)) as ex:
                for r, out in ex.map(pipeline, range(len(models))):
                    res.add_model(r)
                    rs.append(r)
                    traces += out
            for tr in traces:
                tr["samples"] = trace_samples(tr["trace"])
            if tier == "thorough" and not any(tr["judged"]["verdicts"] for tr in traces):
                cache_store(tier, rs, traces, ov)

    stats_total = {}
    nverd = 0
    for tr in traces:
        j = tr["judged"]
        res.cov["traces_validated_against_impl"] += tr["replayed"]
        res.cov["evaluations"] += j["lines"]
        res.cov["drift"] += len(j["drift"])
        res.cov["vacuous"] += tr["skipped"]
        for name, (n, k) in j.get("stats", {}).items():
            a = stats_total.setdefault(name, [0, 0])
            a[0] += n
            a[1] = max(a[1], k)
        mine = [v for v in j["verdicts"] if any(v[0].startswith(p) for p in prefixes)]
        other = [v for v in j["verdicts"] if v not in mine]
        if other:
            log("note: %d verdict(s) of other properties on this trace: %s" %
                (len(other), sorted(set(v[0] for v in other))))
        if j["drift"]:
            fields = sorted(set(d[0] for d in j["drift"]))
            log("DRIFT module=MemberView fields=%s steps=%d (the code no longer follows the transcribed rules; "
                "not a verdict)" % (",".join(fields), len(j["drift"])))
        if mine:
            lines = vlib.read_lines(tr["trace"], [v[1] for v in mine])
            edge_ix = {}
            for formula, ln, case, g in mine:
                key = step_key(formula, lines[ln])
                edge_ix.setdefault(key, (formula, ln, case))
            edge_lines = vlib.read_lines(tr["edges"], [c for (_, _, c) in edge_ix.values()])
            for key, (formula, ln, case) in edge_ix.items():
                n0 = len(res.violations)
                res.violation(formula, key, [lines[ln]], what="variant=%s" % tr["variant"])
                if len(res.violations) > n0 and res.violations[-1][2]:
                    with open(res.violations[-1][2] + ".edges", "w") as fh:
                        fh.write(edge_lines.get(case, ""))
                    if tr["variant"].endswith("+overlap"):
                        with open(res.violations[-1][2] + ".variant", "w") as fh:
                            fh.write("100\n")
            nverd += len(mine)
        if not res.cov["samples"] or len(res.cov["samples"]) < 3:
            res.cov["samples"] += tr.get("samples") or trace_samples(tr["trace"])
        if vlib.STRICT and j["drift"]:
            raise Infra("VERIF_STRICT: drift")
    mine_stats = {k: v for k, v in stats_total.items() if any(k.startswith(p) for p in prefixes)}
    res.cov["exercised"] = {k: {"steps": v[0], "distinct_classes": v[1]} for k, v in sorted(mine_stats.items())}
    res.cov["distinct_nontrivial"] = sum(v[1] for v in mine_stats.values())
    res.assumptions += [
        "verdicts come only from steps executed by the real code and judged by TLC (spec/TraceView.tla, spec/MLProps.tla)",
        "abstract views are rebuilt on a real Memberlist through real calls and the projection is compared before "
        "the step; unconstructible or mismatching views are skipped and counted (coverage.vacuous)",
        "time: testing/synctest virtual clock; one abstract tick = 1h, thresholds at 1.5h",
    ]
    return nverd


def trace_samples(trace):
    out = []
    with open(trace) as fh:
        for i, line in enumerate(fh):
            if i in (0, 1000, 20000):
                e = json.loads(line)
                out.append({k: e[k] for k in ("op", "via", "claim", "pre", "post", "bcast", "events") if k in e})
            if i > 20000:
                break
    return out


def cache_key(tier, ov=False):
    """content hash of everything the view stage depends on: the tree under test, the machinery, tier and seed"""
    import hashlib
    h = hashlib.sha256()
    h.update(("%s|%s|%s|%s" % (tier, vlib.SEED, json.dumps(TIERS[tier]), "overlap" if ov else "")).encode())
    roots = [(vlib.REPO, (".go", ".mod", ".sum"))] + [(os.path.join(vlib.VERIF, d), None) for d in ("spec", "cfg", "harness", "bin")]
    for root, exts in roots:
        for dp, dn, fn in sorted(os.walk(root)):
            dn[:] = sorted(x for x in dn if x not in (".git", "__pycache__"))
            for f in sorted(fn):
                if exts and not f.endswith(exts):
                    continue
                if f.endswith(".pyc"):
                    continue
                p = os.path.join(dp, f)
                h.update(os.path.relpath(p, root).encode() + b"\0")
                with open(p, "rb") as fh:
                    h.update(fh.read())
                h.update(b"\0")
    return h.hexdigest()[:32]


def cache_dir():
    return os.environ.get("VERIF_CACHE") or os.path.join(vlib.VERIF, ".cache")


def cache_load(tier, ov=False):
    if tier != "thorough" or os.environ.get("VERIF_NOCACHE"):
        return None
    key = cache_key(tier, ov)
    p = os.path.join(cache_dir(), "view-%s.json" % key)
    if not os.path.exists(p):
        return None
    try:
        with open(p) as fh:
            c = json.load(fh)
    except (OSError, ValueError):
        return None
    if c.get("key") != key:
        return None
    for tr in c["traces"]:
        j = tr["judged"]
        j["drift"] = [tuple(x) for x in j["drift"]]
        j["stats"] = {k: tuple(v) for k, v in j["stats"].items()}
    c["path"] = p
    return c


def cache_store(tier, models, traces, ov=False):
    if os.environ.get("VERIF_NOCACHE"):
        return
    import time
    key = cache_key(tier, ov)
    os.makedirs(cache_dir(), exist_ok=True)
    keep = [{"replayed": tr["replayed"], "skipped": tr["skipped"], "variant": tr["variant"], "samples": tr.get("samples", []),
             "judged": {"lines": tr["judged"]["lines"], "verdicts": [], "drift": tr["judged"]["drift"],
                        "stats": tr["judged"].get("stats", {})}} for tr in traces]
    tmp = os.path.join(cache_dir(), "view-%s.json.tmp%d" % (key, os.getpid()))
    with open(tmp, "w") as fh:
        json.dump({"key": key, "computed_at": time.strftime("%Y-%m-%dT%H:%M:%SZ", time.gmtime()), "tier": tier,
                   "models": models, "traces": keep}, fh)
    os.replace(tmp, os.path.join(cache_dir(), "view-%s.json" % key))


def replay_edges(work, binp, edges, variant, nshards, sample=1.0):
    d = work.sub("replay")
    if sample < 1.0:
        # further concretisations in the quick tier: a seeded sample of the edges
        import random
        rng = random.Random(vlib.SEED * 7919 + variant)
        sub = os.path.join(d, "edges_sample.ndjson")
        with open(edges) as fh, open(sub, "w") as out:
            for line in fh:
                if rng.random() < sample:
                    out.write(line)
        edges = sub
    with open(edges) as fh:
        total = sum(1 for _ in fh)
    nshards = max(1, min(nshards, total // 200 + 1))

    def env_for(i):
        return {"VERIF_EDGES": edges, "VERIF_TRACE": os.path.join(d, "t%d.ndjson" % i),
                "VERIF_STATS": os.path.join(d, "s%d.json" % i), "VERIF_VARIANT": variant}
    vlib.run_sharded(work, binp, "TestVerifViewReplay", nshards, env_for)
    trace = os.path.join(d, "trace.ndjson")
    agg = {"edges": 0, "replayed": 0, "unconstructible": 0, "prestate_mismatch": 0, "act_failed": 0}
    why = {}
    first = ""
    with open(trace, "w") as out:
        for i in range(nshards):
            with open(os.path.join(d, "t%d.ndjson" % i)) as fh:
                for line in fh:
                    out.write(line)
            os.remove(os.path.join(d, "t%d.ndjson" % i))
            st = json.load(open(os.path.join(d, "s%d.json" % i)))
            for k in agg:
                agg[k] += st[k]
            for k, v in st["why"].items():
                why[k] = why.get(k, 0) + v
            first = first or st.get("first_mismatch", "")
            vname = st["variant"]
    skipped = agg["unconstructible"] + agg["prestate_mismatch"] + agg["act_failed"]
    log("replayed %d/%d edges on the real code (variant %s); skipped %d %s" %
        (agg["replayed"], agg["edges"], vname, skipped, json.dumps(why) if why else ""))
    if agg["prestate_mismatch"]:
        log("  first pre-state mismatch: " + first[:600])
    if agg["replayed"] == 0:
        raise Infra("dead driver: no edge could be replayed")
    return {"trace": trace, "edges": edges, "replayed": agg["replayed"], "skipped": skipped, "variant": vname}


def judge_chunked(work, trace, njvm, chunk=60000):
    """judge a long replay trace in pieces (every replay case is independent of the others);
    line numbers in the result refer to the whole trace"""
    from concurrent.futures import ThreadPoolExecutor
    with open(trace) as fh:
        total = sum(1 for _ in fh)
    if total <= chunk:
        return vlib.judge(work, "TraceView", "TraceView.cfg", trace)
    parts = []
    with open(trace) as fh:
        k, n, out = 0, 0, None
        for line in fh:
            if out is None or n >= chunk:
                if out:
                    out.close()
                k += 1
                p = "%s.part%d" % (trace, k)
                parts.append((p, (k - 1) * chunk))
                out = open(p, "w")
                n = 0
            out.write(line)
            n += 1
        out.close()
    agg = {"verdicts": [], "drift": [], "lines": 0, "stats": {}, "wall_s": 0}

    def one(pq):
        return pq[1], vlib.judge(work, "TraceView", "TraceView.cfg", pq[0])
    with ThreadPoolExecutor(max_workers=max(1, njvm)) as ex:
        for off, j in ex.map(one, parts):
            agg["verdicts"] += [(f, ln + off, c, g) for (f, ln, c, g) in j["verdicts"]]
            agg["drift"] += [(f, ln + off, c, g) for (f, ln, c, g) in j["drift"]]
            agg["lines"] += j["lines"]
            agg["wall_s"] += j["wall_s"]
            for name, (n, kk) in j["stats"].items():
                a = agg["stats"].setdefault(name, (0, 0))
                agg["stats"][name] = (a[0] + n, max(a[1], kk))
    for p, _ in parts:
        os.remove(p)
    return agg
