"""C17: Keyring / KeyRotation reference models -> every call sequence and every rotation interleaving replayed on
real keyrings (with real encrypt/decrypt exchanges) -> TLC judges the recorded calls."""
import json
import os

import vlib
from vlib import Infra, log

OPNAME = {"N": "New", "A": "Add", "U": "Use", "R": "Remove", "G": "GetKeys", "P": "GetPrimary"}
CHUNK = 60000     # lines per judging JVM (a 60k-line trace needs about 1.5 GB)


def keyring_key(formula, line):
    """abstract identity of a failing call: formula + operation (+ the empty ring); never seeds, bytes or counts"""
    e = json.loads(line)
    return "%s:%s%s" % (formula, OPNAME.get(e["op"], e["op"]),
                        ":empty-ring" if e["op"] != "N" and e["pre"] == [] else "")


def paths_of(seq):
    """the replay input (harness path format) that reproduces the recorded lines of one case"""
    ops = [json.loads(x) for x in seq]
    if any(o["node"] for o in ops):
        return {"kind": "rot",
                "start": [{"node": o["node"], "keys": o["nkeys"], "primary": o["key"]} for o in ops if o["op"] == "N"],
                "steps": [{"node": o["node"], "op": o["op"], "key": o["key"]} for o in ops if o["op"] != "N"]}
    return {"kind": "ring", "init": {"keys": ops[0]["nkeys"], "primary": ops[0]["key"]},
            "ops": [{"op": o["op"], "key": o["key"]} for o in ops[1:]]}


def judge_k(work, trace, njvm):
    """judge a long trace in pieces cut on case boundaries; line numbers refer to the whole trace"""
    with open(trace) as fh:
        total = sum(1 for _ in fh)
    if total == 0:
        return {"verdicts": [], "drift": [], "lines": 0}
    if total <= CHUNK:
        return vlib.judge(work, "TraceKeyring", "TraceKeyring.cfg", trace)
    from concurrent.futures import ThreadPoolExecutor
    parts, out, n, k, last_case = [], None, 0, 0, None
    with open(trace) as fh:
        for ln, line in enumerate(fh):
            a = line.index('"case":') + 7
            case = line[a:line.index(',', a)]
            if out is None or (n >= CHUNK and case != last_case):
                if out:
                    out.close()
                k += 1
                p = "%s.part%d" % (trace, k)
                parts.append((p, ln))
                out = open(p, "w")
                n = 0
            out.write(line)
            n += 1
            last_case = case
    out.close()
    agg = {"verdicts": [], "drift": [], "lines": 0}
    try:
        with ThreadPoolExecutor(max_workers=max(1, njvm)) as ex:
            js = ex.map(lambda pq: vlib.judge(work, "TraceKeyring", "TraceKeyring.cfg", pq[0]), parts)
            for (p, off), j in zip(parts, js):
                agg["verdicts"] += [(f, l + off, c, g) for (f, l, c, g) in j["verdicts"]]
                agg["drift"] += [(f, l + off, c, g) for (f, l, c, g) in j["drift"]]
                agg["lines"] += j["lines"]
    finally:
        for p, _ in parts:
            if os.path.exists(p):
                os.remove(p)
    return agg


def key_class(e, before):
    if e["op"] in ("G", "P"):
        return "none"
    if e["op"] == "N":
        return "new:%d:%s" % (len(e["nkeys"]), "noprimary" if e["klen"] == 0 else
                              ("valid" if e["klen"] in (16, 24, 32) else "invalid"))
    if e["klen"] not in (16, 24, 32):
        return "invalid"
    if before and e["key"] == before[0]:
        return "primary"
    if before and e["key"] in before:
        return "installed"
    return "absent"


def keyring_stage(work, res, tier, replay=None):
    binp = vlib.build_harness(work)
    nsh = min(vlib.NCPU, 16)
    traces = []     # (trace file, what, path file or None when every call of a case is in the trace)
    if replay:
        paths = replay + ".paths"
        if not os.path.exists(paths):
            raise Infra("no path file next to " + replay)
        d = work.sub("kreplay")
        for test, name in (("TestVerifKeyringReplay", "ring"), ("TestVerifKeyRotationReplay", "rot")):
            tr = os.path.join(d, name + ".ndjson")
            vlib.run_harness(work, binp, test, {"VERIF_PATHS": paths, "VERIF_TRACE": tr})
            if os.path.getsize(tr) > 0:
                traces.append((tr, "replay", None))
                res.cov["traces_validated_against_impl"] += 1
        if not traces:
            raise Infra("the path file next to %s produced no calls" % replay)
    else:
        r = vlib.model_check(work, "KRcfg", "KR_model.cfg")
        res.add_model(r)
        log("model KR_model.cfg: %d states, %d transitions, %.0fs" % (r["states"], r["transitions"], r["wall_s"]))
        r = vlib.model_check(work, "KRotcfg", "KeyRot_model.cfg")
        res.add_model(r)
        log("model KeyRot_model.cfg: %d states, %d transitions, %.0fs" % (r["states"], r["transitions"], r["wall_s"]))

        d = work.sub("kreplay")

        def sharded(test, paths, name, dedup=""):
            vlib.run_sharded(work, binp, test, nsh,
                             lambda i: {"VERIF_PATHS": paths, "VERIF_DEDUP": dedup,
                                        "VERIF_TRACE": os.path.join(d, "%s%d.ndjson" % (name, i))})
            tr = os.path.join(d, name + ".ndjson")
            with open(tr, "w") as out:
                for i in range(nsh):
                    part = os.path.join(d, "%s%d.ndjson" % (name, i))
                    with open(part) as fh:
                        for line in fh:
                            out.write(line)
                    os.remove(part)
            return tr

        # spec -> code: every call sequence of the bounded model
        gen = "KR_gen5.cfg" if tier == "quick" else "KR_gen6.cfg"
        paths = work.path("krpaths.ndjson")
        n = vlib.generate(work, "KRcfg", gen, paths)
        log("generated %d call sequences from %s" % (n, gen))
        # (neighbouring sequences share their prefix: a call is executed every time but recorded only when its
        # call history has not already produced the identical line)
        traces.append((sharded("TestVerifKeyringReplay", paths, "seq", dedup="1"), "tlc-sequences", paths))
        res.cov["traces_validated_against_impl"] += n
        # every interleaving of the rotation procedure, with real exchanges after every step
        rpaths = work.path("krotpaths.ndjson")
        n = vlib.generate(work, "KRotcfg", "KeyRot_model.cfg", rpaths)
        log("generated %d rotation interleavings" % n)
        traces.append((sharded("TestVerifKeyRotationReplay", rpaths, "rot"), "tlc-rotations", None))
        res.cov["traces_validated_against_impl"] += n
        # code -> spec: seeded random sequences, more keys, more invalid lengths
        count = 3000 if tier == "quick" else 40000
        rt = os.path.join(d, "random.ndjson")
        vlib.run_harness(work, binp, "TestVerifKeyringRandom", {"VERIF_TRACE": rt, "VERIF_COUNT": count})
        traces.append((rt, "random", None))
        res.cov["traces_validated_against_impl"] += count

    classes = set()
    exchanges = 0
    for tr, what, pathfile in traces:
        j = judge_k(work, tr, min(vlib.NCPU, 8))
        res.cov["evaluations"] += j["lines"]
        res.cov["drift"] += len(j["drift"])
        if j["drift"]:
            log("DRIFT module=Keyring what=%s steps=%d (not a verdict)" %
                (",".join(sorted(set(x[0] for x in j["drift"]))), len(j["drift"])))
        if j["verdicts"]:
            lines = vlib.read_lines(tr, [v[1] for v in j["verdicts"]])
            firsts, counts = {}, {}
            for f, ln, case, i in j["verdicts"]:
                key = keyring_key(f, lines[ln])
                counts[key] = counts.get(key, 0) + 1
                if key not in firsts or i < firsts[key][3]:
                    firsts[key] = (f, ln, case, i)       # keep the shortest reproduction
            for key, (f, ln, case, i) in sorted(firsts.items()):
                if pathfile:
                    # the trace holds only the calls not seen before: take the generated sequence up to the
                    # judged call and execute it once more on its own, recording every call
                    p = json.loads(vlib.read_lines(pathfile, [case])[case])
                    p["ops"] = p["ops"][:i - 1]
                    one = work.path("one.paths")
                    with open(one, "w") as fh:
                        fh.write(json.dumps(p) + "\n")
                    onetr = work.path("one.ndjson")
                    vlib.run_harness(work, binp, "TestVerifKeyringReplay", {"VERIF_PATHS": one, "VERIF_TRACE": onetr})
                    with open(onetr) as fh:
                        seq = fh.readlines()
                else:
                    got = vlib.read_lines(tr, range(ln - i + 1, ln + 1))
                    seq = [got[x] for x in sorted(got)]
                    p = paths_of(seq)
                n0 = len(res.violations)
                res.violation(f, key, seq, what="source=%s occurrences=%d" % (what, counts[key]))
                if len(res.violations) > n0 and res.violations[-1][2]:
                    with open(res.violations[-1][2] + ".paths", "w") as fh:
                        fh.write(json.dumps(p) + "\n")
        # coverage: distinct (operation, result, ring size before, key class) classes among the judged calls
        with open(tr) as fh:
            for k, line in enumerate(fh):
                e = json.loads(line)
                b = None if e["op"] == "N" else e["pre"]
                classes.add((e["op"], "panic" if e["pan"] else e["res"], len(b) if b is not None else -1,
                             key_class(e, b), "x" if e["nx"] else ""))
                exchanges += e["nx"]
                if k in (1, 7, 20000) and len(res.cov["samples"]) < 4:
                    res.cov["samples"].append({a: e[a] for a in ("case", "i", "node", "op", "key", "klen", "pre", "res",
                                                                "ring", "prim", "held", "nx", "xfail")})
    res.cov["distinct_nontrivial"] = len(classes)
    res.cov["exchanges"] = exchanges
    res.assumptions += [
        "reference semantics: spec/KRRef.tla (AddKey appends, UseKey moves to the front, RemoveKey of an absent key "
        "is a silent no-op; RemoveKey on an empty ring may return nil or an error but must not panic)",
        "abstract keys are concretised to fixed pairwise distinct byte strings of the stated lengths; the keyring is "
        "assumed not to depend on key contents beyond equality and length",
        "every key list GetKeys returned during a sequence (explicit calls and the harness's own reading after each "
        "call) is held and re-read after every later call; a list that changes is a verdict (sequential witness of the "
        "race with decryptPayload, which iterates such a list outside the lock)",
        "not part of the property, reported as drift: the order of the non-primary keys, a NewKeyring more tolerant "
        "than the reference, and a result code that differs while the ring is right (the codes the property fixes - "
        "removing the primary and using an absent key are errors - are judged by C17_Remove / C17_Use)",
        "rotation: 3 nodes, barrier between the phases; exchange = encryptPayload with the sender's primary "
        "(both encryption versions), decryptPayload with the receiver's GetKeys()",
    ]
