"""C19: Probe model -> every scenario played against a real node with scripted peers -> TLC judges."""
import json
import os

import vlib
from vlib import Infra, log


def probe_key(formula, line):
    e = json.loads(line)
    if e["kind"] == "relay":
        r = e["r"]
        return "%s:relay:%s:%s" % (formula, "wantnack" if r["wantNack"] else "nonack",
                                    "noack" if r["ackAt"] < 0 else ("timely" if r["ackAt"] < 4 and r["seqOk"] else "late-or-foreign"))
    s = e["s"]
    d = "none" if s["direct"] < 0 else ("early" if s["direct"] < 4 else ("intime" if s["direct"] < 20 else "late"))
    return "%s:probe:direct-%s:relays-%d:tcp-%s%s" % (formula, d, len(s["relays"]), s["tcp"],
                                                        ":stray" if s["foreignAck"] >= 0 or s["foreignNack"] >= 0 or s["dupAck"] else "")


def probe_stage(work, res, tier, replay=None):
    binp = vlib.build_harness(work)
    d = work.sub("probe")
    cases = os.path.join(d, "cases.ndjson")
    if replay:
        src = replay + ".case"
        if not os.path.exists(src):
            raise Infra("no case file next to " + replay)
        open(cases, "w").write(open(src).read())
        total = 1
    else:
        cfg = "Probe_q" if tier == "quick" else "Probe_t"
        r = vlib.model_check(work, "Probe", cfg + ".cfg", workers=4)
        res.add_model(r)
        total = vlib.generate(work, "Probe", cfg + "_gen.cfg", cases)
        log("model %s: %d scenarios checked and generated" % (cfg, total))
    nsh = max(1, min(vlib.NCPU, 16, total // 100 + 1))
    vlib.run_sharded(work, binp, "TestVerifProbeScenarios", nsh,
                     lambda i: {"VERIF_CASES": cases, "VERIF_TRACE": os.path.join(d, "t%d.ndjson" % i)})
    trace = os.path.join(d, "trace.ndjson")
    with open(trace, "w") as out:
        for i in range(nsh):
            out.write(open(os.path.join(d, "t%d.ndjson" % i)).read())
    j = vlib.judge(work, "TraceProbe", "TraceProbe.cfg", trace)
    res.cov["traces_validated_against_impl"] += j["lines"]
    res.cov["evaluations"] += j["lines"]
    res.cov["drift"] += len(j["drift"])
    res.cov["vacuous"] += len(j["vacuous"])
    res.cov["probe"] = {k: v[0] for k, v in sorted(j["stat2"].items())}
    if j["drift"]:
        log("DRIFT module=Probe what=%s scenarios=%d (not a verdict)" %
            (",".join(sorted(set(x[0] for x in j["drift"]))), len(j["drift"])))
    if j["verdicts"]:
        lines = vlib.read_lines(trace, [v[1] for v in j["verdicts"]])
        for formula, ln, case, _ in j["verdicts"]:
            key = probe_key(formula, lines[ln])
            n0 = len(res.violations)
            res.violation(formula, key, [lines[ln]])
            if len(res.violations) > n0 and res.violations[-1][2]:
                e = json.loads(lines[ln])
                open(res.violations[-1][2] + ".case", "w").write(json.dumps({"kind": e["kind"], "s": e["s"], "r": e["r"]}) + "\n")
    classes = set()
    with open(trace) as fh:
        for k, line in enumerate(fh):
            e = json.loads(line)
            classes.add(probe_key("", line) + (":suspect" if e["suspect"] else ""))
            if k in (3, 900, 2910) and len(res.cov["samples"]) < 3:
                res.cov["samples"].append(e)
    res.cov["distinct_nontrivial"] = len(classes)
    res.assumptions += [
        "the prober / relay is a real Memberlist without background tickers; target, indirect probers and requester are "
        "scripted simnet endpoints answering at the scenario's instants in virtual time (ProbeTimeout 200 ms, ProbeInterval 1 s)",
        "arrival instants never coincide with the probe timeout or the deadline (no ties)",
        "the exact health delta is conformance (drift); the property only fixes the direction of score changes and the range",
    ]
