"""C20 (and the Leave clauses of C08): Lifecycle model -> schedules forced onto a real node -> TLC judges."""
import json
import os
import subprocess

import vlib
from vlib import Infra, log


def life_key(formula, line, i):
    e = json.loads(line)
    if i == 0:
        return "%s:%s" % (formula, "late-sends" if e["lateSends"] else "goroutines")
    r = e["results"][i - 1]
    extra = ""
    if formula == "C20_Timeout" and r["role"] == "held":
        extra = ":held@" + r["gate"]
    if formula == "C20_NeverSignalled":
        extra = ":leaving" if r.get("leaving") else ":not-leaving"
    return "%s:%s%s" % (formula, r["what"], extra)


def confirm_hang(work, binp, cases, case, d):
    """run one schedule alone; True if it stalls again (no progress in real time)"""
    one = os.path.join(d, "one_%d.ndjson" % case)
    with open(cases) as fh:
        for k, cl in enumerate(fh, 1):
            if k == case:
                open(one, "w").write(cl)
                break
    e = vlib.goenv()
    e.update({"VERIF_CASES": one, "VERIF_TRACE": one + ".trace", "VERIF_SHARD": "0/1", "VERIF_SEED": str(vlib.SEED)})
    p = subprocess.run([binp, "-test.run", "^TestVerifLifecycle$", "-test.timeout", "600s", "-test.count", "1"], cwd=vlib.REPO,
                       env=e, stdout=subprocess.PIPE, stderr=subprocess.STDOUT, text=True)
    return p.returncode != 0 and "verif: hang" in p.stdout


def life_stage(work, res, tier, prefixes, replay=None):
    binp = vlib.build_harness(work)
    d = work.sub("life")
    cases = os.path.join(d, "cases.ndjson")
    if replay:
        src = replay + ".case"
        if not os.path.exists(src):
            raise Infra("no case file next to " + replay)
        open(cases, "w").write(open(src).read())
        total = 1
    else:
        cfg = "Life_q" if tier == "quick" else "Life_t"
        r = vlib.model_check(work, "Lifecycle", cfg + ".cfg", workers=4)
        res.add_model(r)
        total = vlib.generate(work, "Lifecycle", cfg + "_gen.cfg", cases)
        log("model %s: %d states, %d schedules generated" % (cfg, r["states"], total))
    nsh = max(1, min(vlib.NCPU, 16, total // 50 + 1))
    # a panic in a background goroutine kills the process: journal + resume
    pend = [{"i": i, "resume": 0, "tries": 0} for i in range(nsh)]
    believed = [False]      # a hang has been confirmed on its own: later stalls (of any shard) are believed at once
    while pend:
        procs = []
        for p in pend:
            e = vlib.goenv()
            e.update({"VERIF_CASES": cases, "VERIF_TRACE": os.path.join(d, "t%d.ndjson" % p["i"]),
                      "VERIF_HANG_S": "10" if believed[0] else "45",
                      "VERIF_JOURNAL": os.path.join(d, "j%d" % p["i"]), "VERIF_RESUME": str(p["resume"]),
                      "VERIF_SHARD": "%d/%d" % (p["i"], nsh), "VERIF_SEED": str(vlib.SEED)})
            out = open(os.path.join(d, "o%d.txt" % p["i"]), "w")
            cmd = [binp, "-test.run", "^TestVerifLifecycle$", "-test.timeout", "3000s", "-test.count", "1"]
            procs.append((p, subprocess.Popen(cmd, cwd=vlib.REPO, env=e, stdout=out, stderr=subprocess.STDOUT), out))
        pend = []
        for p, proc, out in procs:
            rc = proc.wait()
            out.close()
            if rc == 0:
                continue
            txt = open(out.name).read()
            p["tries"] += 1
            jp = os.path.join(d, "j%d" % p["i"])
            if not os.path.exists(jp) or p["tries"] > 40:
                raise Infra("lifecycle harness shard %d failed (rc=%d):\n%s" % (p["i"], rc, txt[-2500:]))
            case = int(open(jp).read().strip())
            why = "deadlock" if "deadlock" in txt else ("panic" if "panic" in txt else ("hang" if "verif: hang" in txt else "died"))
            if why == "hang":
                # a hang is only believed when the schedule hangs again on its own (once a shard has a confirmed hang,
                # later stalls of that shard are believed at once, and after three the rest of the shard is left out:
                # the verdict is there, the remaining schedules would each cost the watchdog's patience)
                if not believed[0] and not confirm_hang(work, binp, cases, case, d):
                    log("lifecycle harness shard %d stalled on schedule %d but the schedule completes on its own: "
                        "no verdict from it; resuming" % (p["i"], case))
                    p["resume"] = case
                    pend.append(p)
                    continue
            first = [l for l in txt.splitlines() if l.startswith("panic:") or "deadlock" in l]
            rec = {"ev": "LifeCase", "case": case, "final": "?", "selfState": "?", "leaveFlag": False, "lateSends": 0,
                   "goLeft": 0, "goStarted": 0,
                   "results": [{"what": "process", "role": "whole", "gate": "", "res": "panic" if why not in ("deadlock", "hang") else "blocked",
                                "err": (first[0] if first else why)[:160], "tookMs": 0, "timeoutMs": 0, "mayPanic": False,
                                "parked": False, "parkedMs": 0, "waited": False, "signalable": False, "afterShutdown": False,
                                "repeat": False, "nodeOps": 0, "stage": "?", "selfAfter": "?", "peerAlive": False, "leaving": False, "peerListed": False, "sentBefore": False}]}
            with open(os.path.join(d, "t%d.ndjson" % p["i"]), "a") as fh:
                fh.write(json.dumps(rec) + "\n")
            log("lifecycle harness shard %d died on schedule %d (%s); resuming" % (p["i"], case, rec["results"][0]["err"]))
            p["resume"] = case
            if why == "hang":
                believed[0] = True
            if why in ("hang", "deadlock"):
                # (deadlock: the virtual-time bubble ended while goroutines of the node were still blocked for good - the
                # runtime ends the process; the schedule is recorded as one whose background activity never ended)
                p["hangs"] = p.get("hangs", 0) + 1
                if p["hangs"] >= 3:
                    log("lifecycle harness shard %d: three schedules hung / left goroutines blocked for good; the rest of this "
                        "shard is not executed" % p["i"])
                    res.cov["vacuous"] += 1
                    continue
            pend.append(p)
    trace = os.path.join(d, "trace.ndjson")
    with open(trace, "w") as out:
        for i in range(nsh):
            p = os.path.join(d, "t%d.ndjson" % i)
            if os.path.exists(p):
                out.write(open(p).read())
    j = vlib.judge(work, "TraceLife", "TraceLife.cfg", trace)
    res.cov["traces_validated_against_impl"] += j["lines"]
    res.cov["evaluations"] += j["lines"]
    res.cov["drift"] += len(j["drift"])
    res.cov["stages"] = {k: v[0] for k, v in sorted(j["stat2"].items())}
    if j["drift"]:
        log("DRIFT module=Lifecycle what=stage schedules=%d (not a verdict)" % len(j["drift"]))
    mine = [v for v in j["verdicts"] if any(v[0].startswith(p) for p in prefixes)]
    if mine:
        lines = vlib.read_lines(trace, [v[1] for v in mine])
        for formula, ln, case, i in mine:
            key = life_key(formula, lines[ln], i)
            n0 = len(res.violations)
            res.violation(formula, key, [lines[ln]])
            if len(res.violations) > n0 and res.violations[-1][2]:
                with open(cases) as fh:
                    for k, cl in enumerate(fh, 1):
                        if k == case:
                            open(res.violations[-1][2] + ".case", "w").write(cl)
                            break
    classes = set()
    with open(trace) as fh:
        for k, line in enumerate(fh):
            e = json.loads(line)
            for r in e["results"]:
                classes.add((r["what"], r["role"], r["gate"], r["res"], r["stage"]))
            if k in (10, 2000, 3500) and len(res.cov["samples"]) < 3:
                res.cov["samples"].append(e)
    res.cov["distinct_nontrivial"] += len(classes)
    res.assumptions += [
        "interleavings are those expressible as 'one call held at one of its lock-free gates while another step runs to "
        "completion' plus all sequential orders; finer interleavings inside critical sections are excluded by the locks, "
        "arbitrary overlaps of three or more calls are not enumerated",
        "Leave / UpdateNode are called with a 1.5 s timeout; a wait that ends by timeout although no notification was ever "
        "armed would never end with timeout 0 and is judged as such",
        "sends made by API calls the schedule itself issues after Shutdown are not counted as background activity",
    ]
