"""C06: timed Suspicion model -> every arrival sequence replayed on the real suspicion timer (unit and
end-to-end on a real Memberlist, virtual time) -> TLC judges against the documented schedule."""
import json
import os
import subprocess
import sys

import vlib
from vlib import Infra, log

REF = os.path.join(vlib.VERIF, "spec", "ref")
if REF not in sys.path:
    sys.path.insert(0, REF)
import suspicion_ref  # noqa: E402  (independent reference: the only source of expected values)
import gen_susp_cfg   # noqa: E402

DRIVER_ACTS = ("start", "confirm", "refute", "resuspect", "kill")


def _timeouts(k, mn, mx):
    try:
        return [suspicion_ref.timeout_ms(c, k, mn, mx) for c in range(0, max(k, 0) + 1)]
    except ValueError:
        return None   # a floor too close to an integer boundary: not a usable configuration


def doc_k(mult, members):
    """documented: k = SuspicionMult - 2 expected confirmations; with too few other members to give them, none"""
    k = mult - 2
    return 0 if members - 2 < k else k


def doc_min_ms(mult, members, interval_ms):
    """SuspicionMult * nodeScale(n) * ProbeInterval; None unless it is a whole number of milliseconds"""
    x = mult * suspicion_ref.node_scale_1000(members) * interval_ms
    return x // 1000 if x % 1000 == 0 else None


def make_table():
    """everything the Go harness copies through: the documented timeouts for every configuration it may use"""
    tab = {"abs": {"min": gen_susp_cfg.ABS_MIN, "max": gen_susp_cfg.ABS_MAX, "far": gen_susp_cfg.ABS_MAX + 40,
                   "timeouts": {str(k): t for k, t in gen_susp_cfg.abs_tables().items()}},
           "unit": [], "e2e": []}
    for k in range(0, 7):
        for mn, mx in ((1000, 6000), (2000, 30000), (100, 600), (250, 1000), (500, 500), (1000, 1003), (40, 4000)):
            t = _timeouts(k, mn, mx)
            if t is not None:
                tab["unit"].append({"k": k, "min": mn, "max": mx, "timeouts": t})
    for mult in range(2, 9):
        for members in range(2, 13):
            for interval in (1000, 200, 50):
                mn = doc_min_ms(mult, members, interval)
                if mn is None:
                    continue
                for maxmult in (6, 3, 1):
                    k = doc_k(mult, members)
                    t = _timeouts(k, mn, maxmult * mn)
                    if t is not None:
                        tab["e2e"].append({"mult": mult, "members": members, "interval": interval, "maxmult": maxmult,
                                           "k": k, "min": mn, "max": maxmult * mn, "timeouts": t})
    return tab


def susp_key(formula, lines, upto):
    """formula : k0|k>0 : kind of the last arrival before the judged line (never seeds, instants or counts)"""
    head = json.loads(lines[0])
    last = "none"
    for line in lines[:upto]:
        e = json.loads(line)
        if e["act"] in DRIVER_ACTS:
            last = e["act"]
    return "%s:%s:%s" % (formula, "k0" if head["wk"] < 1 else "k>0", last)


def concrete_path(lines):
    """the executed sequence of a recorded case, re-executable by TestVerifSuspReplay"""
    head = json.loads(lines[0])
    acts = []
    for line in lines[1:]:
        e = json.loads(line)
        if e["act"] in DRIVER_ACTS:
            acts.append({"at": e["at"], "act": e["act"], "from": e["from"] if e["act"] != "start" else head["acc"],
                         "newer": bool(e.get("newer", False))})
    conc = {"variant": head["variant"]}
    if head["variant"] == "unit":
        conc["unit"] = {"k": head["wk"], "min": head["wmin"], "max": head["wmax"]}
    else:
        conc["e2e"] = {"mult": head["mult"], "members": head["members"], "interval": head["interval"],
                       "maxmult": head["maxmult"]}
    return {"k": head["wk"], "acts": acts, "concrete": conc}


def refresh_concrete(p):
    """expected values of a saved sequence are recomputed from the reference, never read back"""
    c = p["concrete"]
    if c["variant"] == "unit":
        u = c["unit"]
        u["timeouts"] = _timeouts(u["k"], u["min"], u["max"])
    else:
        e = c["e2e"]
        e["k"] = doc_k(e["mult"], e["members"])
        e["min"] = doc_min_ms(e["mult"], e["members"], e["interval"])
        if e["min"] is None:
            raise Infra("replay: the configuration has no whole-millisecond minimum")
        e["max"] = e["maxmult"] * e["min"]
        e["timeouts"] = _timeouts(e["k"], e["min"], e["max"])
    return p


def split_cases(trace):
    """[(first line number (1-based), [lines])] per case, in file order"""
    cases, cur, cur_id = [], None, None
    with open(trace) as fh:
        for ln, line in enumerate(fh, 1):
            i = line.index('"case":') + 7
            cid = line[i:line.index(",", i)]
            if cid != cur_id:
                cur = []
                cases.append((ln, cur))
                cur_id = cid
            cur.append(line)
    return cases


def judge_s(work, trace, njvm):
    """judge a trace, in chunks cut at case boundaries"""
    from concurrent.futures import ThreadPoolExecutor
    with open(trace) as fh:
        total = sum(1 for _ in fh)
    chunk = max(20000, min(150000, total // max(1, njvm) + 1))
    if total <= chunk:
        return vlib.judge(work, "TraceSusp", "TraceSusp.cfg", trace)
    parts, out, n, k, last_case = [], None, 0, 0, None
    with open(trace) as fh:
        for ln, line in enumerate(fh):
            i = line.index('"case":') + 7
            case = line[i:line.index(",", i)]
            if out is None or (n >= chunk and case != last_case):
                if out:
                    out.close()
                k += 1
                p = "%s.part%d" % (trace, k)
                parts.append((p, ln))
                out = open(p, "w")
                n = 0
            out.write(line)
            n += 1
            last_case = case
    out.close()
    agg = {"verdicts": [], "drift": [], "lines": 0, "stats": {}, "wall_s": 0}
    with ThreadPoolExecutor(max_workers=max(1, njvm)) as ex:
        for (p, off), j in zip(parts, ex.map(lambda pq: vlib.judge(work, "TraceSusp", "TraceSusp.cfg", pq[0]), parts)):
            agg["verdicts"] += [(f, l + off, c, g) for (f, l, c, g) in j["verdicts"]]
            agg["drift"] += [(f, l + off, c, g) for (f, l, c, g) in j["drift"]]
            agg["lines"] += j["lines"]
            os.remove(p)
    return agg


def merge_shards(d, nsh, name):
    tr = os.path.join(d, name)
    with open(tr, "w") as out:
        for i in range(nsh):
            p = os.path.join(d, "t%d.ndjson" % i)
            with open(p) as fh:
                for line in fh:
                    out.write(line)
            os.remove(p)
    return tr


def susp_stage(work, res, tier, replay=None):
    if subprocess.run([sys.executable, os.path.join(REF, "gen_susp_cfg.py"), "check"]).returncode != 0:
        raise Infra("spec/SuspTimeouts.tla is not what spec/ref/gen_susp_cfg.py generates; run `gen_susp_cfg.py write`")
    binp = vlib.build_harness(work)
    table = work.path("susp_table.json")
    with open(table, "w") as fh:
        json.dump(make_table(), fh)
    nsh = min(vlib.NCPU, 16)
    traces = []
    if replay:
        paths = replay + ".paths"
        if not os.path.exists(paths):
            raise Infra("no path file next to " + replay)
        fresh = work.path("replay.paths")
        with open(paths) as fh, open(fresh, "w") as out:
            for line in fh:
                if line.strip():
                    out.write(json.dumps(refresh_concrete(json.loads(line))) + "\n")
        d = work.sub("sreplay")
        tr = os.path.join(d, "trace.ndjson")
        vlib.run_harness(work, binp, "TestVerifSuspReplay", {"VERIF_PATHS": fresh, "VERIF_TRACE": tr, "VERIF_TABLE": table})
        traces.append((tr, "replay"))
    else:
        model = "Susp_model.cfg" if tier == "quick" else "Susp_model_t.cfg"
        r = vlib.model_check(work, "SuspCfg", model)
        res.add_model(r)
        log("model %s: %d states, %d transitions, %.0fs" % (model, r["states"], r["transitions"], r["wall_s"]))
        gen = "Susp_gen.cfg" if tier == "quick" else "Susp_gen_t.cfg"
        paths = work.path("spaths.ndjson")
        n = vlib.generate(work, "SuspCfg", gen, paths)
        log("generated %d timed arrival sequences from %s" % (n, gen))
        d = work.sub("sreplay")
        vlib.run_sharded(work, binp, "TestVerifSuspReplay", nsh,
                         lambda i: {"VERIF_PATHS": paths, "VERIF_TABLE": table, "VERIF_CONC": "rot",
                                    "VERIF_TRACE": os.path.join(d, "t%d.ndjson" % i)})
        traces.append((merge_shards(d, nsh, "trace.ndjson"), "tlc-sequences"))
        # code -> spec: seeded random sequences with larger domains
        count = 500 if tier == "quick" else 8000
        vlib.run_sharded(work, binp, "TestVerifSuspRandom", nsh,
                         lambda i: {"VERIF_TABLE": table, "VERIF_COUNT": count,
                                    "VERIF_TRACE": os.path.join(d, "t%d.ndjson" % i)})
        traces.append((merge_shards(d, nsh, "random.ndjson"), "random"))

    classes = set()
    for tr, what in traces:
        j = judge_s(work, tr, min(vlib.NCPU, 12))
        res.cov["evaluations"] += j["lines"]
        res.cov["drift"] += len(j["drift"])
        if j["drift"]:
            log("DRIFT module=Suspicion what=%s steps=%d (not a verdict)" %
                (",".join(sorted(set(x[0] for x in j["drift"]))), len(j["drift"])))
        cases = split_cases(tr)
        res.cov["traces_validated_against_impl"] += len(cases)
        if j["verdicts"]:
            starts = [c[0] for c in cases]
            import bisect
            firsts = {}
            for f, ln, case, i in j["verdicts"]:
                ci = bisect.bisect_right(starts, ln) - 1
                first, lines = cases[ci]
                key = susp_key(f, lines, ln - first + 1)
                firsts.setdefault(key, (f, lines))
            for key, (f, lines) in firsts.items():
                n0 = len(res.violations)
                res.violation(f, key, lines, what="source=%s" % what)
                if len(res.violations) > n0 and res.violations[-1][2]:
                    with open(res.violations[-1][2] + ".paths", "w") as fh:
                        fh.write(json.dumps(concrete_path(lines)) + "\n")
        # distinct non-trivial: classes of episodes in which a timer of the observer ran or was overtaken
        for ci, (first, lines) in enumerate(cases):
            head = json.loads(lines[0])
            kinds, eff, fired = [], 0, "none"
            for line in lines[1:]:
                e = json.loads(line)
                if e["act"] in DRIVER_ACTS:
                    kinds.append(e["act"][0] + ("+" if e["act"] == "confirm" and e["ret"] else ""))
                    eff += 1 if e["act"] == "confirm" and e["ret"] else 0
                elif e["act"] in ("fired", "stalefired"):
                    fired = e["act"] if fired == "none" else fired + "," + e["act"]
            classes.add((head["variant"], head["wk"], head["members"], head["mult"], "".join(kinds)[:12], fired[:40]))
            if ci in (7, 20011) and len(res.cov["samples"]) < 4:
                res.cov["samples"].append({
                    "source": what, "variant": head["variant"], "k": head["wk"], "min_ms": head["wmin"],
                    "max_ms": head["wmax"], "documented_timeouts_ms": head["timeouts"],
                    "steps": [{a: e[a] for a in ("act", "at", "from", "ret", "listed", "tn", "count", "by")}
                              for e in (json.loads(x) for x in lines[1:])]})
    res.cov["distinct_nontrivial"] = len(classes)
    res.assumptions += [
        "documented schedule: spec/ref/suspicion_ref.py (exact decimal arithmetic; configurations whose floor lies within "
        "1e-12 of an integer boundary are not used), k = SuspicionMult-2 or 0 with fewer than k other members",
        "virtual time (testing/synctest): timers fire at their exact instant; all arrival instants are whole "
        "milliseconds and never equal to a possible deadline of the running suspicion (ties are not explored)",
        "two suspicions of the same peer never begin at the same clock reading",
        "confirmations, refutations and death claims are delivered as decoded messages to suspectNode / aliveNode / "
        "deadNode of a node without network, probe or gossip schedule",
    ]
