"""C12 C14 C15 C16 (and the tamper part of C13): Wire model -> every case executed between two real nodes -> TLC judges."""
import json
import os
import random
import subprocess

import vlib
from vlib import Infra, log


def wire_key(formula, line):
    e = json.loads(line)
    if e.get("ev") == "Codec":
        return "%s:%s:%s:%s" % (formula, e["kind"], e["payload"], e["frag"])
    enc_s = "enc" if e["s"]["keys"] and e["s"]["vout"] else "plain"
    enc_r = ("verify" if e["r"]["vin"] else "lenient") if e["r"]["keys"] else "nokeys"
    if e["attack"] == "version" and formula.startswith("C14_OnlyAuthentic"):
        return "%s:version-byte:%s" % (formula, e["path"])
    return "%s:%s.%s:%s:%s->%s" % (formula, e["path"], e["msg"], e["attack"], enc_s, enc_r)


def run_cases(work, binp, cases, d, nsh):
    """run the case file sharded; a shard that dies (panic in a listener goroutine) is resumed after the
    journalled case, which is recorded as a panic"""
    procs = []
    for i in range(nsh):
        procs.append({"i": i, "resume": 0, "trace": os.path.join(d, "t%d.ndjson" % i),
                      "journal": os.path.join(d, "j%d" % i), "tries": 0})
    pending = list(procs)
    while pending:
        running = []
        for p in pending:
            e = vlib.goenv()
            e.update({"VERIF_CASES": cases, "VERIF_TRACE": p["trace"], "VERIF_JOURNAL": p["journal"],
                      "VERIF_RESUME": str(p["resume"]), "VERIF_SHARD": "%d/%d" % (p["i"], nsh), "VERIF_SEED": str(vlib.SEED),
                      "VERIF_SITES": os.path.join(d, "sites%d.txt" % p["i"])})
            out = open(os.path.join(d, "o%d.txt" % p["i"]), "w")
            cmd = [binp, "-test.run", "^TestVerifWireCases$", "-test.timeout", "3000s", "-test.count", "1"]
            running.append((p, subprocess.Popen(cmd, cwd=vlib.REPO, env=e, stdout=out, stderr=subprocess.STDOUT), out))
        pending = []
        for p, proc, out in running:
            rc = proc.wait()
            out.close()
            if rc == 0:
                continue
            p["tries"] += 1
            txt = open(out.name).read()
            if not os.path.exists(p["journal"]) or p["tries"] > 50 or "panic" not in txt:
                raise Infra("wire harness shard %d failed (rc=%d):\n%s" % (p["i"], rc, txt[-2500:]))
            case = int(open(p["journal"]).read().strip())
            msg = [l for l in txt.splitlines() if l.startswith("panic:")]
            with open(cases) as fh:
                for k, line in enumerate(fh, 1):
                    if k == case:
                        c = json.loads(line)
                        break
            rec = {"ev": "WireCase", "case": case, "frames": 1, "wireLen": 0, "sealed": True, "canary": False,
                   "replyFrames": 0, "replySealed": True, "injected": 0, "actedMut": 0, "actedVersion": 0, "changedMut": 0,
                   "sentDigest": "", "acted": False, "delivered": "", "reply": "none", "nodeOps": 0, "mutated": True,
                   "note": "process died", "panic": (msg[0] if msg else "panic")[:200]}
            for k in ("s", "r", "msg", "path", "peerCrc", "shrinks", "attack", "foreignKey", "otherLabel"):
                rec[k] = c[k]
            with open(p["trace"], "a") as fh:
                fh.write(json.dumps(rec) + "\n")
            log("wire harness shard %d died on case %d (%s); resuming" % (p["i"], case, rec["panic"]))
            p["resume"] = case
            pending.append(p)


def wire_stage(work, res, tier, prefixes, replay=None):
    binp = vlib.build_harness(work)
    d = work.sub("wire")
    cases = os.path.join(d, "cases.ndjson")
    if replay:
        src = replay + ".case"
        if not os.path.exists(src):
            raise Infra("no case file next to " + replay)
        open(cases, "w").write(open(src).read())
        total = 1
    else:
        cfg = "Wire_q" if tier == "quick" else "Wire_t"
        from concurrent.futures import ThreadPoolExecutor
        allc = work.path("wire_all.ndjson")
        with ThreadPoolExecutor(max_workers=2) as ex:
            fm = ex.submit(vlib.model_check, work, "WireCfg", cfg + ".cfg", 1800, 4)
            fg = ex.submit(vlib.generate, work, "WireCfg", cfg + "_gen.cfg", allc)
            r, n = fm.result(), fg.result()
        res.add_model(r)
        log("model %s: %d cases checked" % (cfg, r["states"]))
        if tier == "quick":
            # the quick tier executes a seeded sample of the enumerated cases (the model check above is exhaustive)
            rng = random.Random(vlib.SEED)
            lines = open(allc).read().split("\n")[:-1]
            pick = rng.sample(lines, min(15000, len(lines)))
            # always include the version-byte cases on raw user payloads (DESIGN.md §6, F4)
            have = set(pick)
            pick += [x for x in lines if '"attack":"version"' in x and '"msg":"user"' in x and x not in have]
            open(cases, "w").write("\n".join(pick) + "\n")
            total = len(pick)
            log("generated %d cases, executing a seeded sample of %d" % (n, total))
        else:
            os.rename(allc, cases)
            total = n
            log("generated %d cases, executing all" % n)
    nsh = max(1, min(vlib.NCPU, 16, total // 50 + 1))
    run_cases(work, binp, cases, d, nsh)
    sites = res.cov.setdefault("_sites", set())
    for i in range(nsh):
        sp = os.path.join(d, "sites%d.txt" % i)
        if os.path.exists(sp):
            sites.update(x for x in open(sp).read().split("\n") if x)
    trace = os.path.join(d, "trace.ndjson")
    with open(trace, "w") as out:
        for i in range(nsh):
            p = os.path.join(d, "t%d.ndjson" % i)
            if os.path.exists(p):
                out.write(open(p).read())
                os.remove(p)
    if "C16_" in prefixes and not replay:
        ct = os.path.join(d, "codec.ndjson")
        vlib.run_harness(work, binp, "TestVerifLabelCodec", {"VERIF_TRACE": ct})
        with open(trace, "a") as out:
            out.write(open(ct).read())
    j = judge_wire(work, trace)
    res.cov["traces_validated_against_impl"] += j["lines"]
    res.cov["evaluations"] += j["lines"]
    res.cov["drift"] += len(j["drift"])
    if j["drift"]:
        log("DRIFT module=Wire what=accept cases=%d (the receiver's accept/ignore decision differs from the model; "
            "not a verdict)" % len(j["drift"]))
    res.cov["wire"] = {k: v[0] for k, v in sorted(j["stat2"].items())}
    mine = [v for v in j["verdicts"] if any(v[0].startswith(p) for p in prefixes)]
    other = sorted(set(v[0] for v in j["verdicts"] if v not in mine))
    if other:
        log("note: verdicts of other properties on the wire trace: %s" % other)
    if mine:
        lines = vlib.read_lines(trace, [v[1] for v in mine])
        for formula, ln, case, _ in mine:
            key = wire_key(formula, lines[ln])
            n0 = len(res.violations)
            res.violation(formula, key, [lines[ln]])
            if len(res.violations) > n0 and res.violations[-1][2] and json.loads(lines[ln]).get("ev") != "Codec":
                e = json.loads(lines[ln])
                c = {k: e[k] for k in ("s", "r", "msg", "path", "peerCrc", "shrinks", "attack", "foreignKey", "otherLabel", "pad")}
                c["fixedPad"] = True
                open(res.violations[-1][2] + ".case", "w").write(json.dumps(c) + "\n")
    classes = set()
    with open(trace) as fh:
        for k, line in enumerate(fh):
            e = json.loads(line)
            if e.get("ev") == "Codec":
                classes.add(("codec", e["kind"], e["payload"], e["frag"], e["labelLen"] // 64))
                continue
            classes.add((e["path"], e["msg"], e["attack"], bool(e["s"]["keys"]) and e["s"]["vout"], bool(e["r"]["keys"]),
                         e["r"]["vin"], e["r"]["skip"], e["s"]["label"] == e["r"]["label"], e["acted"]))
            if k in (5, 700, 4000) and len(res.cov["samples"]) < 3:
                res.cov["samples"].append({a: e[a] for a in ("s", "r", "msg", "path", "attack", "frames", "wireLen", "sealed",
                                                             "acted", "reply", "delivered", "sentDigest")})
    res.cov["distinct_nontrivial"] = len(classes)
    res.assumptions += [
        "the attacker of the model is the harness: it captures the bytes a real sender emits, modifies them as the case "
        "says (one representative byte per field in this stage) and injects them into a real receiver",
        "AES-GCM, msgpack and LZW are exercised, not verified; the tap opens ciphertext with crypto/aes + crypto/cipher "
        "directly, independently of security.go",
    ]


def judge_wire(work, trace):
    from concurrent.futures import ThreadPoolExecutor
    with open(trace) as fh:
        lines = fh.readlines()
    chunk = 20000
    if len(lines) <= chunk:
        return vlib.judge(work, "TraceWire", "TraceWire.cfg", trace)
    parts = []
    for k in range(0, len(lines), chunk):
        p = "%s.part%d" % (trace, k // chunk)
        open(p, "w").writelines(lines[k:k + chunk])
        parts.append((p, k))
    agg = {"verdicts": [], "drift": [], "lines": 0, "stat2": {}}
    with ThreadPoolExecutor(max_workers=8) as ex:
        for (p, off), j in zip(parts, ex.map(lambda pq: vlib.judge(work, "TraceWire", "TraceWire.cfg", pq[0]), parts)):
            agg["verdicts"] += [(f, l + off, c, g) for (f, l, c, g) in j["verdicts"]]
            agg["drift"] += [(f, l + off, c, g) for (f, l, c, g) in j["drift"]]
            agg["lines"] += j["lines"]
            for k, v in j["stat2"].items():
                a = agg["stat2"].setdefault(k, [0, 0])
                a[0] += v[0]
                a[1] += v[1]
            os.remove(p)
    return agg
