"""C14 / C15 / C17: WireRot model (key rotation on a live node interleaved with traffic) -> every step sequence
executed on a real node -> TLC judges every recorded step (TraceWireRot)."""
import json
import os

import vlib
from vlib import Infra, log


def rot_key(formula, e):
    """abstract identity of a failing step: formula + path/message class + how the key of the message relates to
    the ring; never seeds, bytes or counts"""
    rel = "-"
    if e["op"] == "V":
        rel = ("plain" if e["key"] == "plain" else "primary" if e["pre"][:1] == [e["key"]] else
               "installed" if e["key"] in e["pre"] else "absent")
    return "%s:%s.%s:%s" % (formula, e["path"], e["msg"], rel)


def wirerot_stage(work, res, tier, prefixes, replay=None):
    binp = vlib.build_harness(work)
    d = work.sub("wrot")
    nsh = min(vlib.NCPU, 16)
    sets = []
    if replay:
        src = replay + ".rot"
        if not os.path.exists(src):
            raise Infra("no case file next to " + replay)
        sets.append((src, "replay"))
        nsh = 1
    else:
        r = vlib.model_check(work, "WRotCfg", "WRot_model.cfg", workers=4)
        res.add_model(r)
        log("model WRot_model.cfg: %d states, %d transitions" % (r["states"], r["transitions"]))
        for cfg in (["WRot_q_gen.cfg"] if tier == "quick" else ["WRot_t_gen3.cfg", "WRot_t_gen4.cfg"]):
            paths = work.path(cfg + ".paths")
            n = vlib.generate(work, "WRotCfg", cfg, paths)
            log("generated %d rotation/traffic sequences from %s" % (n, cfg))
            sets.append((paths, cfg))
            res.cov["traces_validated_against_impl"] += n
    classes = set()
    stats = {}
    for paths, what in sets:
        name = os.path.basename(paths)
        vlib.run_sharded(work, binp, "TestVerifWireRot", nsh,
                         lambda i: {"VERIF_PATHS": paths, "VERIF_TRACE": os.path.join(d, "%s.%d" % (name, i))})
        tr = os.path.join(d, name + ".ndjson")
        with open(tr, "w") as out:
            for i in range(nsh):
                part = os.path.join(d, "%s.%d" % (name, i))
                with open(part) as fh:
                    for line in fh:
                        out.write(line)
                os.remove(part)
        j = judge_chunks(work, tr)
        res.cov["evaluations"] += j["lines"]
        res.cov["drift"] += len(j["drift"])
        for k, v in j["stat2"].items():
            stats[k] = stats.get(k, 0) + v
        if j["drift"]:
            log("DRIFT module=WireRot what=%s steps=%d (not a verdict)" %
                (",".join(sorted(set(x[0] for x in j["drift"]))), len(j["drift"])))
        mine = [v for v in j["verdicts"] if any(v[0].startswith(p) for p in prefixes)]
        other = sorted(set(v[0] for v in j["verdicts"] if v not in mine))
        if other:
            log("note: verdicts of other properties on the rotation trace: %s" % other)
        if mine:
            lines = vlib.read_lines(tr, [v[1] for v in mine])
            firsts = {}
            for f, ln, case, i in mine:
                key = rot_key(f, json.loads(lines[ln]))
                if key not in firsts:
                    firsts[key] = (f, ln, case, i)
            for key, (f, ln, case, i) in sorted(firsts.items()):
                got = vlib.read_lines(tr, range(ln - i + 1, ln + 1))
                seq = [got[x] for x in sorted(got)]
                n0 = len(res.violations)
                res.violation(f, key, seq, what="source=%s" % what)
                if len(res.violations) > n0 and res.violations[-1][2]:
                    p = json.loads(vlib.read_lines(paths, [case])[case])
                    with open(res.violations[-1][2] + ".rot", "w") as fh:
                        fh.write(json.dumps(p) + "\n")
        with open(tr) as fh:
            for k, line in enumerate(fh):
                e = json.loads(line)
                classes.add((e["op"], e["path"], e["msg"], len(e["pre"]), rot_key("", e), e["acted"], e["seal"] in e["pre"][:1],
                             e["vin"], e["vout"]))
                if k in (2, 900) and len(res.cov["samples"]) < 6:
                    res.cov["samples"].append(e)
    res.cov["rotation"] = dict(sorted(stats.items()))
    res.cov["distinct_nontrivial"] = res.cov.get("distinct_nontrivial", 0) + len(classes)
    res.assumptions += [
        "rotation on a live node: one node, rings over 3 keys, inbound traffic of 4 classes (packet user / ping, stream "
        "user message / push-pull) sealed by a second real node whose keyring holds exactly the key of the step; what the "
        "node emits is opened with the standard library's AES-GCM under every candidate key",
    ]


def judge_chunks(work, trace, chunk=60000):
    """judge a long trace in pieces cut on case boundaries"""
    from concurrent.futures import ThreadPoolExecutor
    with open(trace) as fh:
        lines = fh.readlines()
    agg = {"verdicts": [], "drift": [], "lines": 0, "stat2": {}}
    if not lines:
        raise Infra("empty rotation trace")
    parts, k = [], 0
    while k < len(lines):
        e = min(len(lines), k + chunk)
        while e < len(lines) and json.loads(lines[e])["i"] != 1:
            e += 1
        p = "%s.part%d" % (trace, len(parts))
        with open(p, "w") as fh:
            fh.writelines(lines[k:e])
        parts.append((p, k))
        k = e
    try:
        with ThreadPoolExecutor(max_workers=min(vlib.NCPU, 8)) as ex:
            js = list(ex.map(lambda pq: vlib.judge(work, "TraceWireRot", "TraceWireRot.cfg", pq[0]), parts))
        for (p, off), j in zip(parts, js):
            agg["verdicts"] += [(f, l + off, c, g) for (f, l, c, g) in j["verdicts"]]
            agg["drift"] += [(f, l + off, c, g) for (f, l, c, g) in j["drift"]]
            agg["lines"] += j["lines"]
            for a, v in j.get("stat2", {}).items():
                agg["stat2"][a] = agg["stat2"].get(a, 0) + v[0]
    finally:
        for p, _ in parts:
            if os.path.exists(p):
                os.remove(p)
    return agg
