"""C01 / C02: the order core of the membership rules (spec/MLOrderRef.tla, MLOrder.tla) verified by Apalache for
UNBOUNDED incarnations: Init => IndInv, IndInv /\ Next => IndInv', and IndInv /\ Next => each action invariant.
TLC binds MLOrderRef to MLCore and to the code (P_OrderCore in the MemberView models, drift 'order-core' on recorded
steps).  A failure here is a defect of the machinery (exit 2), never a verdict about the code."""
import os
import shutil
import subprocess
import time

import vlib
from vlib import Infra, log

RUNS = [("Init", "IndInv", 0), ("IndInit", "IndInv", 1), ("IndInit", "A_Forward", 1), ("IndInit", "A_Stale", 1),
        ("IndInit", "A_Refute", 1), ("IndInit", "A_SelfInc", 1)]


def order_stage(work, res):
    from concurrent.futures import ThreadPoolExecutor
    d = work.sub("apalache")
    for f in ("MLOrder.tla", "MLOrderRef.tla"):
        shutil.copy(os.path.join(vlib.VERIF, "spec", f), d)

    def one(run):
        init, inv, length = run
        gb = vlib.MEM.acquire(4)
        t0 = time.time()
        try:
            out_dir = os.path.join(d, "out_%s_%s" % (init, inv))
            env = dict(os.environ, JVM_ARGS="-Xmx4g")
            p = subprocess.run(["apalache-mc", "check", "--init=" + init, "--inv=" + inv, "--length=%d" % length,
                                "--out-dir=" + out_dir, "MLOrder.tla"], cwd=d, env=env, stdout=subprocess.PIPE,
                               stderr=subprocess.STDOUT, text=True, timeout=1200)
        except subprocess.TimeoutExpired:
            raise Infra("apalache timed out on %s / %s" % (init, inv))
        finally:
            vlib.MEM.release(gb)
        ok = p.returncode == 0 and "The outcome is: NoError" in p.stdout
        if not ok:
            raise Infra("apalache: %s from %s is not established (rc=%d):\n%s" %
                        (inv, init, p.returncode, "\n".join(p.stdout.splitlines()[-20:])))
        return {"init": init, "inv": inv, "length": length, "outcome": "NoError", "wall_s": round(time.time() - t0, 1)}

    with ThreadPoolExecutor(max_workers=3) as ex:
        rs = list(ex.map(one, RUNS))
    res.cov["apalache"] = rs
    res.cov["models"].append({"module": "MLOrder", "cfg": "apalache: inductive invariant + 4 action invariants, unbounded integers",
                              "wall_s": round(sum(r["wall_s"] for r in rs), 1)})
    log("apalache MLOrder: inductive invariant and action invariants (forward, stale, refute, own counter) hold for "
        "unbounded incarnations (%d runs)" % len(rs))
    res.assumptions.append(
        "unbounded incarnations: spec/MLOrder.tla (order core of aliveNode/suspectNode/deadNode over unbounded integers) is "
        "verified by Apalache (inductive invariant + action invariants O_Forward, O_Stale, O_Refute, O_SelfInc); its operators "
        "(MLOrderRef) agree with MLCore on every transition of the bounded MemberView models (P_OrderCore) and are compared with "
        "every recorded step of the real code (drift 'order-core')")
