#!/usr/bin/env python3
"""Shared machinery of the /verif checks (python3, standard library only).

A check is a sequence of stages.  Every stage either
  * runs TLC on a bounded model (design-level result, counted in the evidence),
  * asks TLC to generate behaviours (edges / walks) as JSON,
  * runs the Go harness (package memberlist of the CURRENT tree of $VERIF_REPO, compiled with
    `-tags verif -overlay`), which executes behaviours on the real code and records a trace,
  * asks TLC to judge a recorded trace: VERDICT lines (a property predicate was false on a step
    the real code took) and DRIFT lines (the step is not what the transcribed rules predict).

Exit codes of a check: 0 held (possibly with KNOWN-FINDING lines), 1 VIOLATION, 2 no verdict
possible (build failure, TLC failure, timeout, dead driver).
"""
import json
import os
import re
import shutil
import subprocess
import threading
import sys
import tempfile
import time

VERIF = os.path.dirname(os.path.dirname(os.path.abspath(__file__)))
REPO = os.environ.get("VERIF_REPO", "/repo")
SEED = int(os.environ.get("VERIF_SEED", "1") or "1")
NCPU = int(os.environ.get("VERIF_NCPU") or os.cpu_count() or 4)
STRICT = os.environ.get("VERIF_STRICT", "") == "1"
OUT = os.environ.get("VERIF_OUT", os.path.join(VERIF, "evidence"))   # evidence and replay directory


class Infra(Exception):
    """the check could not reach a verdict"""


_T0 = time.time()


def log(msg):
    sys.stderr.write("[%4ds] %s\n" % (time.time() - _T0, msg))
    sys.stderr.flush()


class Work:
    def __init__(self):
        self.dir = tempfile.mkdtemp(prefix="verif-")
        self.n = 0

    def path(self, name):
        return os.path.join(self.dir, name)

    def sub(self, prefix):
        self.n += 1
        d = os.path.join(self.dir, "%s%d" % (prefix, self.n))
        os.makedirs(d)
        return d

    def cleanup(self):
        shutil.rmtree(self.dir, ignore_errors=True)


def goenv():
    env = dict(os.environ)
    env["GOFLAGS"] = "-mod=mod"
    env["GOPROXY"] = "off"
    env.pop("GOTOOLCHAIN", None) if env.get("GOTOOLCHAIN") == "local" else None
    env.pop("GOSUMDB", None) if env.get("GOSUMDB") == "off" else None
    return env


# --------------------------------------------------------------------------- TLC

TLC_CP = "/opt/veriftools/tla/tla2tools.jar:/opt/veriftools/tla/CommunityModules-deps.jar"


class _MemBudget:
    """JVM heaps of concurrently running TLC processes are kept within a share of the machine's memory
    (a judge that is killed for lack of memory gives no verdict)"""

    def __init__(self):
        total = 16
        try:
            with open("/proc/meminfo") as fh:
                for line in fh:
                    if line.startswith("MemTotal:"):
                        total = int(line.split()[1]) // (1 << 20)
        except OSError:
            pass
        self.budget = max(8, int(os.environ.get("VERIF_MEM_GB") or total * 0.7))
        self.used = 0
        self.cv = threading.Condition()

    def acquire(self, gb):
        gb = min(gb, self.budget)
        with self.cv:
            while self.used + gb > self.budget:
                self.cv.wait()
            self.used += gb
        return gb

    def release(self, gb):
        with self.cv:
            self.used -= gb
            self.cv.notify_all()


MEM = _MemBudget()


def run_tlc(work, module, cfg, workers=NCPU, env=None, timeout=900, extra=None, heap=None, out_file=None):
    """run TLC in a scratch copy of the spec directory; returns (rc, output or path)"""
    heap = heap or "8g"
    gb = MEM.acquire(int(heap.rstrip("g")))
    try:
        return _run_tlc(work, module, cfg, workers, env, timeout, extra, heap, out_file)
    finally:
        MEM.release(gb)


def _run_tlc(work, module, cfg, workers, env, timeout, extra, heap, out_file):
    d = work.sub("tlc")
    for f in os.listdir(os.path.join(VERIF, "spec")):
        if f.endswith(".tla"):
            shutil.copy(os.path.join(VERIF, "spec", f), d)
    cfgpath = cfg if os.path.isabs(cfg) else os.path.join(VERIF, "cfg", cfg)
    cmd = ["java", "-XX:+UseParallelGC", "-Xss64m"]
    if heap:
        cmd.append("-Xmx" + heap)
    cmd += ["-cp", TLC_CP, "tlc2.TLC", "-workers", str(workers), "-metadir", os.path.join(d, "meta"),
            "-config", cfgpath]
    if extra:
        cmd += extra
    cmd.append(module + ".tla")
    e = dict(os.environ)
    if env:
        e.update(env)
    t0 = time.time()
    try:
        if out_file:
            with open(out_file, "w") as fh:
                p = subprocess.run(cmd, cwd=d, env=e, stdout=fh, stderr=subprocess.STDOUT, timeout=timeout)
            out = out_file
        else:
            p = subprocess.run(cmd, cwd=d, env=e, stdout=subprocess.PIPE, stderr=subprocess.STDOUT,
                               timeout=timeout, text=True)
            out = p.stdout
    except subprocess.TimeoutExpired:
        raise Infra("TLC timed out after %ds on %s/%s" % (timeout, module, os.path.basename(cfgpath)))
    finally:
        shutil.rmtree(os.path.join(d, "meta"), ignore_errors=True)
    return p.returncode, out, time.time() - t0


RE_STATES = re.compile(r"(\d+) states generated, (\d+) distinct states found")


def model_check(work, module, cfg, timeout=1800, workers=NCPU):
    """exhaustive TLC run of a bounded model; the model is independent of the code, so a failure
    here is a defect of the machinery (exit 2), never a verdict"""
    rc, out, wall = run_tlc(work, module, cfg, workers=workers, timeout=timeout)
    if rc != 0 and "is violated" not in out and workers > 1:
        # TLC normalises shared values lazily, which occasionally races between workers
        # ("Attempted to check equality of integer ... with non-integer"); one worker is safe
        log("TLC worker race on %s/%s, repeating with one worker" % (module, cfg))
        rc, out, wall = run_tlc(work, module, cfg, workers=1, timeout=timeout)
    m = None
    for m in RE_STATES.finditer(out):
        pass
    if rc != 0 or "No error has been found" not in out or m is None:
        tail = "\n".join(out.splitlines()[-40:])
        raise Infra("model %s/%s did not pass (rc=%d):\n%s" % (module, cfg, rc, tail))
    return {"module": module, "cfg": cfg, "transitions": int(m.group(1)), "states": int(m.group(2)),
            "wall_s": round(wall, 1)}


def generate(work, module, cfg, out_ndjson, timeout=1800, extra=None, tag="E"):
    """run a generator config; collect the JSON payload of every <<"E", "...">> line"""
    raw = work.path("gen_%d.txt" % (work.n + 1))
    rc, _, wall = run_tlc(work, module, cfg, workers=1, timeout=timeout, extra=extra, out_file=raw)
    n = 0
    ok = False
    prefix = '<<"%s", ' % tag
    with open(raw) as fh, open(out_ndjson, "w") as out:
        for line in fh:
            if line.startswith(prefix):
                out.write(json.loads(line.rstrip("\n")[len(prefix):-2]) + "\n")
                n += 1
            elif "No error has been found" in line or "Simulation" in line or "states generated" in line:
                ok = True
    if rc != 0 and not ok:
        with open(raw) as fh:
            tail = "".join(fh.readlines()[-30:])
        raise Infra("generator %s/%s failed (rc=%d):\n%s" % (module, cfg, rc, tail))
    os.remove(raw)
    if n == 0:
        raise Infra("generator %s/%s produced nothing" % (module, cfg))
    return n


RE_TUPLE = re.compile(r'^<<"(VERDICT|DRIFT|DONE|VACUOUS|STAT2|STAT)"(.*)>>$')


def judge(work, module, cfg, trace, env=None, timeout=1800):
    """TLC evaluates the property predicates and conformance on a recorded trace.
    returns dict(verdicts=[(formula, line, case, g)], drift=[(field, line, case, g)], lines=n)"""
    e = {"VERIF_TRACE": trace}
    if env:
        e.update(env)
    rc, out, wall = run_tlc(work, module, cfg, workers=1, env=e, timeout=timeout, heap="8g")
    verdicts, drift, done, stats, stat2, vac = [], [], None, {}, {}, []
    for line in out.splitlines():
        m = RE_TUPLE.match(line.strip())
        if not m:
            continue
        kind = m.group(1)
        rest = [x.strip().strip('"') for x in m.group(2).split(",") if x.strip()]
        if kind == "DONE":
            done = int(rest[0])
        elif kind == "VERDICT":
            verdicts.append((rest[0], int(rest[1]), int(rest[2]), int(rest[3])))
        elif kind == "DRIFT":
            drift.append((rest[0], int(rest[1]), int(rest[2]), int(rest[3])))
        elif kind == "STAT":
            stats[rest[0]] = (int(rest[1]), int(rest[2]))
        elif kind == "STAT2":
            a = stat2.setdefault(rest[0], [0, 0])
            a[0] += int(rest[1])
            a[1] += int(rest[2])
        elif kind == "VACUOUS":
            vac.append(rest[0])
    if done is None or rc != 0:
        tail = "\n".join(out.splitlines()[-30:])
        raise Infra("trace judge %s did not consume the trace %s (rc=%d):\n%s" % (module, trace, rc, tail))
    return {"verdicts": verdicts, "drift": drift, "lines": done, "stats": stats, "stat2": stat2, "vacuous": vac, "wall_s": round(wall, 1)}


# --------------------------------------------------------------------------- Go harness

def overlay(work, repo=REPO):
    rep = {}
    hd = os.path.join(VERIF, "harness")
    for f in sorted(os.listdir(hd)):
        if f.endswith(".go"):
            rep[os.path.join(repo, f)] = os.path.join(hd, f)
    p = work.path("overlay.json")
    with open(p, "w") as fh:
        json.dump({"Replace": rep}, fh)
    return p


def build_harness(work, race=False, repo=REPO):
    """compile package memberlist of the current tree with the hooks on and the harness injected"""
    ov = overlay(work, repo)
    binp = work.path("verif.test" + (".race" if race else ""))
    cmd = ["go", "test", "-tags", "verif", "-vet=off", "-overlay", ov, "-c", "-o", binp]
    if race:
        cmd.append("-race")
    cmd.append(".")
    p = subprocess.run(cmd, cwd=repo, env=goenv(), stdout=subprocess.PIPE, stderr=subprocess.STDOUT, text=True,
                       timeout=900)
    if p.returncode != 0 or not os.path.exists(binp):
        raise Infra("the harness does not build against %s (hooks missing or changed?):\n%s" % (repo, p.stdout[-3000:]))
    return binp


def run_harness(work, binp, test, env, timeout=1800, repo=REPO, allow_fail=False):
    e = goenv()
    e.update({k: str(v) for k, v in env.items()})
    e["VERIF_SEED"] = str(SEED)
    cmd = [binp, "-test.run", "^%s$" % test, "-test.timeout", "%ds" % timeout, "-test.count", "1"]
    try:
        p = subprocess.run(cmd, cwd=repo, env=e, stdout=subprocess.PIPE, stderr=subprocess.STDOUT, text=True,
                           timeout=timeout + 30)
    except subprocess.TimeoutExpired:
        raise Infra("harness %s timed out" % test)
    if p.returncode != 0 and not allow_fail:
        raise Infra("harness %s failed (rc=%d):\n%s" % (test, p.returncode, p.stdout[-4000:]))
    return p.returncode, p.stdout


def run_sharded(work, binp, test, nshards, env_for, timeout=1800, ok_rc=(0,)):
    """run the same harness test in nshards processes; env_for(i) gives the extra environment"""
    procs = []
    for i in range(nshards):
        e = goenv()
        e.update({k: str(v) for k, v in env_for(i).items()})
        e["VERIF_SEED"] = str(SEED)
        e["VERIF_SHARD"] = "%d/%d" % (i, nshards)
        out = open(work.path("shard_%s_%d.out" % (test, i)), "w")
        cmd = [binp, "-test.run", "^%s$" % test, "-test.timeout", "%ds" % timeout, "-test.count", "1"]
        procs.append((subprocess.Popen(cmd, cwd=REPO, env=e, stdout=out, stderr=subprocess.STDOUT), out, i))
    bad = []
    deadline = time.time() + timeout + 60
    cpu = {}
    for p, out, i in procs:
        rc = None
        while rc is None:
            try:
                rc = p.wait(timeout=30)
            except subprocess.TimeoutExpired:
                # a harness process that has used no CPU at all for 5 minutes is stuck (a goroutine waiting for a mutex
                # that is never released stops the virtual clock): no verdict can come from it
                try:
                    with open("/proc/%d/stat" % p.pid) as fh:
                        f = fh.read().rsplit(")", 1)[1].split()
                    used = int(f[11]) + int(f[12])
                except (OSError, IndexError, ValueError):
                    used = -1
                last = cpu.get(p.pid)
                if last is None or last[0] != used:
                    cpu[p.pid] = (used, time.time())
                elif time.time() - last[1] > 300 or time.time() > deadline:
                    p.kill()
                    p.wait()
                    rc = -9
        out.close()
        if rc not in ok_rc:
            with open(out.name) as fh:
                bad.append("shard %d rc=%d: %s" % (i, rc, fh.read()[-2000:]))
    if bad:
        raise Infra("harness %s failed:\n%s" % (test, "\n".join(bad)))


# --------------------------------------------------------------------------- findings, evidence

def load_known():
    """known_findings.txt: `finding: property=C14 key=<key> what=...` / `fixed: property=.. <commit> key=.. what=..`"""
    known = []
    p = os.path.join(VERIF, "known_findings.txt")
    if os.path.exists(p):
        for line in open(p):
            line = line.strip()
            if not line.startswith("finding:"):
                continue
            m = re.match(r"finding:\s+property=(\S+)\s+key=(\S+)\s+what=(.*)$", line)
            if m:
                known.append({"property": m.group(1), "key": m.group(2), "what": m.group(3)})
    return known


def save_replay(prop, name, lines):
    d = os.path.join(OUT, "replays")
    os.makedirs(d, exist_ok=True)
    p = os.path.join(d, "%s-%s-seed%d.ndjson" % (prop, name, SEED))
    with open(p, "w") as fh:
        for l in lines:
            fh.write(l if l.endswith("\n") else l + "\n")
    return p


class Result:
    """collects what a check did; decides the exit code"""

    def __init__(self, prop, tier, level):
        self.prop, self.tier, self.level = prop, tier, level
        self.t0 = time.time()
        self.cov = {"states": 0, "transitions": 0, "traces_validated_against_impl": 0, "evaluations": 0,
                    "distinct_nontrivial": 0, "samples": [], "models": [], "drift": 0, "vacuous": 0}
        self.assumptions = []
        self.violations = []   # (formula, key, replay path, what)
        self.known_hits = {}
        self.known = [k for k in load_known() if k["property"] == prop]

    def add_model(self, r):
        self.cov["models"].append(r)
        self.cov["states"] += r["states"]
        self.cov["transitions"] += r["transitions"]

    def violation(self, formula, key, replay_lines, what=""):
        for k in self.known:
            if k["key"] == key:
                self.known_hits.setdefault(key, [k, 0])[1] += 1
                return
        name = re.sub(r"[^A-Za-z0-9_.-]", "_", formula + "-" + key)[:120]
        if len([v for v in self.violations if v[1] == key]) >= 1:
            self.violations.append((formula, key, None, what))
            return
        path = save_replay(self.prop, name, replay_lines)
        self.violations.append((formula, key, path, what))

    def finish(self, rule, exhaustive=False, extra=None):
        cov = self.cov
        cov["rule"] = rule
        cov["exhaustive"] = exhaustive
        sites = cov.pop("_sites", None)
        if sites is not None:
            cov["send_sites"] = send_site_census(sites)
        if extra:
            cov.update(extra)
        if not cov["samples"]:
            cov["samples"] = ["(no sample recorded)"]
        ev = {"property_id": self.prop, "tier": self.tier, "seed": SEED, "level": self.level, "coverage": cov,
              "assumptions": self.assumptions, "wall_s": round(time.time() - self.t0, 1),
              "violations": len(set(v[1] for v in self.violations)),
              "known_findings_hit": sorted(self.known_hits.keys())}
        os.makedirs(OUT, exist_ok=True)
        with open(os.path.join(OUT, self.prop + ".json"), "w") as fh:
            json.dump(ev, fh, indent=1, sort_keys=True)
            fh.write("\n")
        for key, (k, n) in sorted(self.known_hits.items()):
            print("KNOWN-FINDING: property=%s %s (key=%s, %d occurrence(s))" % (self.prop, k["what"], key, n))
        seen = set()
        for formula, key, path, what in self.violations:
            if key in seen or path is None:
                continue
            seen.add(key)
            print("VIOLATION property=%s replay=%s formula=%s key=%s %s" % (self.prop, path, formula, key, what))
        sys.stdout.flush()
        return 1 if self.violations else 0


def send_site_census(reached):
    """static census (go/ast, bin/census) of the call sites through which bytes reach the transport or a stream,
    against the sites the executed cases and simulations passed through (caller file:line>callee)"""
    try:
        p = subprocess.run(["go", "run", os.path.join(VERIF, "bin", "census", "main.go"), REPO], env=goenv(),
                           cwd=os.path.join(VERIF, "bin", "census"), stdout=subprocess.PIPE, stderr=subprocess.PIPE,
                           text=True, timeout=300)
    except Exception as e:       # coverage information only
        return {"error": str(e)}
    if p.returncode != 0:
        return {"error": p.stderr[-300:]}
    hit = {}
    for r in reached:
        loc, callee = r.split(">")
        f, ln = loc.rsplit(":", 1)
        hit.setdefault((f, callee), set()).add(int(ln))
    yes, no = [], []
    for line in p.stdout.splitlines():
        s = json.loads(line)
        name = "%s:%d %s() in %s" % (s["file"], s["start"], s["callee"], s["in"])
        lines = hit.get((s["file"], s["callee"]), ())
        (yes if any(s["start"] <= x <= s["end"] for x in lines) else no).append(name)
    return {"census": len(yes) + len(no), "reached": yes, "not_reached": no}


def read_lines(path, wanted):
    """return {lineno: text} for the 1-based line numbers in wanted"""
    wanted = set(wanted)
    out = {}
    if not wanted:
        return out
    mx = max(wanted)
    with open(path) as fh:
        for i, line in enumerate(fh, 1):
            if i in wanted:
                out[i] = line
            if i >= mx:
                break
    return out
