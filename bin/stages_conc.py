"""C20 / C17 (no data race): Conc model -> pairs of operations run concurrently on a real node under the Go race
detector -> TLC judges what the detector reported (TraceConc)."""
import json
import os
import subprocess

import vlib
from vlib import Infra, log

HEALTHY_A = {"UpdateNode", "Join", "SendBestEffort", "SendReliable", "Ping", "MembersRead"}
HEALTHY_B = {"BgSteady", "BgPeerUpdate", "UpdateNode", "Join"}
KEYOPS = {"GetKeys", "GetKeysRead", "GetPrimaryKey", "AddKey", "UseKey", "RemoveKey"}


def conc_key(formula, line, i):
    e = json.loads(line)
    if formula.endswith("_NoRace"):
        return "%s:%s" % (formula, e["pairs"][i - 1] if 0 < i <= len(e["pairs"]) else "?")
    if formula.endswith("_NoDeadlockConc"):
        return "%s:%s" % (formula, e["stuck"][i - 1] if 0 < i <= len(e["stuck"]) else "?")
    return "%s:%s~%s" % (formula, e["a"], e["b"])


def conc_stage(work, res, tier, prop, replay=None):
    d = work.sub("conc")
    cases = os.path.join(d, "cases.ndjson")
    if replay:
        src = replay + ".case"
        if not os.path.exists(src):
            raise Infra("no case file next to " + replay)
        open(cases, "w").write(open(src).read())
        total = 1
    else:
        r = vlib.model_check(work, "Conc", "Conc_model.cfg", workers=1)
        res.add_model(r)
        raw = os.path.join(d, "raw.ndjson")
        vlib.generate(work, "Conc", "Conc_gen.cfg", raw)
        seen, keep = set(), []
        for line in open(raw):
            c = json.loads(line)
            k = (c["a"], c["b"])
            if k in seen:
                continue
            seen.add(k)
            if prop == "C04":
                # healthy activity only: the application's calls against steady probing / gossip / push-pull and against a
                # peer's metadata updates
                if c["a"] in HEALTHY_A and c["b"] in HEALTHY_B:
                    keep.append(c)
            elif (c["a"] in KEYOPS) == (prop == "C17"):
                keep.append(c)
        keep.sort(key=lambda c: (c["a"], c["b"]))
        reps = 1 if tier == "quick" else 4
        with open(cases, "w") as fh:
            for _ in range(reps):
                for c in keep:
                    fh.write(json.dumps(c) + "\n")
        total = len(keep) * reps
        log("model Conc: %d pairs of operations share an object with a write (%s)" % (len(keep), prop))
    binp = vlib.build_harness(work, race=(prop != "C04"))
    nsh = max(1, min(vlib.NCPU // 2, 8, total))
    racelog = os.path.join(d, "race")

    def env_for(i):
        return {"VERIF_CASES": cases, "VERIF_TRACE": os.path.join(d, "t%d.ndjson" % i),
                "VERIF_RACELOG": "%s%d" % (racelog, i), "GORACE": "log_path=%s%d halt_on_error=0 history_size=2" % (racelog, i),
                "VERIF_CONC_DUR": "120ms" if tier == "quick" else "400ms", "VERIF_CONC_PROP": prop}
    # a test binary built with -race fails the test (exit 1 / 66) when the detector reported anything: the reports are
    # what this stage is after, so only an incomplete trace counts as a failure of the harness
    vlib.run_sharded(work, binp, "TestVerifConc", nsh, env_for, timeout=1500, ok_rc=(0, 1, 66))
    trace = os.path.join(d, "trace.ndjson")
    with open(trace, "w") as out:
        for i in range(nsh):
            p = os.path.join(d, "t%d.ndjson" % i)
            if os.path.exists(p):
                out.write(open(p).read())
    j = vlib.judge(work, "TraceConc", "TraceConc.cfg", trace)
    if j["lines"] < total:
        raise Infra("concurrency harness recorded %d of %d cases" % (j["lines"], total))
    res.cov["traces_validated_against_impl"] += j["lines"]
    res.cov["evaluations"] += j["lines"]
    res.cov["drift"] += len(j["drift"])
    res.cov["vacuous"] += len(j["vacuous"])
    res.cov["conc"] = {k: v[0] for k, v in sorted(j["stat2"].items())}
    if j["vacuous"]:
        raise Infra("the concurrency harness ran without the race detector")
    if j["drift"]:
        log("DRIFT module=Conc what=lock-discipline cases=%d (not a verdict)" % len(j["drift"]))
    mine = [v for v in j["verdicts"] if v[0].startswith(prop + "_") and (prop != "C04" or v[0].endswith("NoDeadlockConc"))]
    if mine:
        lines = vlib.read_lines(trace, [v[1] for v in mine])
        for formula, ln, case, i in mine:
            key = conc_key(formula, lines[ln], i)
            n0 = len(res.violations)
            res.violation(formula, key, [lines[ln]])
            if len(res.violations) > n0 and res.violations[-1][2]:
                e = json.loads(lines[ln])
                with open(res.violations[-1][2] + ".case", "w") as fh:
                    fh.write(json.dumps({"a": e["a"], "b": e["b"], "objs": [], "expectRace": e["expect"]}) + "\n")
    classes = set()
    with open(trace) as fh:
        for k, line in enumerate(fh):
            e = json.loads(line)
            classes.add((e["a"], e["b"]))
            if k in (3, 40) and len(res.cov["samples"]) < 5:
                res.cov["samples"].append(e)
    res.cov["distinct_nontrivial"] += len(classes)
    res.assumptions += [
        "data races: the Go race detector observes the executions that happened (pairs of operations of the Conc model run "
        "concurrently for a fraction of a second each on a real three-node cluster in real time); a pair that never overlapped "
        "in an unordered way during the run is not reported",
    ]
