"""C09 (exchange part): PushPull model -> failures injected into real exchanges at byte offsets -> TLC judges."""
import json
import os

import vlib
from vlib import Infra, log
from stages_wire import judge_wire  # same chunking helper shape


def pp_key(formula, line):
    e = json.loads(line)
    if e["ev"] == "PPVersions":
        return "%s:verifyProtocol" % formula
    return "%s:%s:%s:%s%s%s" % (formula, e["fail"], e["dir"], e["phase"] if e["fail"] == "cut" else "-",
                                 ":sealed" if e["sealed"] else "", ":compressed" if e["comp"] else "")


def pushpull_stage(work, res, tier, replay=None):
    binp = vlib.build_harness(work)
    d = work.sub("pp")
    cases = os.path.join(d, "cases.ndjson")
    if replay:
        src = replay + ".case"
        if not os.path.exists(src):
            raise Infra("no case file next to " + replay)
        open(cases, "w").write(open(src).read())
        total = 1
    else:
        r = vlib.model_check(work, "PushPull", "PP_model.cfg", workers=4)
        res.add_model(r)
        total = vlib.generate(work, "PushPull", "PP_gen.cfg", cases)
        log("model PushPull: %d cases (failure x direction x phase x configuration, version matrices)" % total)
    nsh = max(1, min(vlib.NCPU, 16, total // 100 + 1))
    vlib.run_sharded(work, binp, "TestVerifPushPull", nsh,
                     lambda i: {"VERIF_CASES": cases, "VERIF_TRACE": os.path.join(d, "t%d.ndjson" % i),
                                "VERIF_TIER": tier})
    trace = os.path.join(d, "trace.ndjson")
    with open(trace, "w") as out:
        for i in range(nsh):
            out.write(open(os.path.join(d, "t%d.ndjson" % i)).read())
    j = judge_pp(work, trace)
    res.cov["traces_validated_against_impl"] += j["lines"]
    res.cov["evaluations"] += j["lines"]
    res.cov["drift"] += len(j["drift"])
    res.cov["pushpull"] = {k: v[0] for k, v in sorted(j["stat2"].items())}
    if j["drift"]:
        log("DRIFT module=PushPull what=%s cases=%d (not a verdict)" %
            (",".join(sorted(set(x[0] for x in j["drift"]))), len(j["drift"])))
    if j["verdicts"]:
        lines = vlib.read_lines(trace, [v[1] for v in j["verdicts"]])
        for formula, ln, case, _ in j["verdicts"]:
            key = pp_key(formula, lines[ln])
            n0 = len(res.violations)
            res.violation(formula, key, [lines[ln]])
            if len(res.violations) > n0 and res.violations[-1][2]:
                with open(cases) as fh:
                    for k, cl in enumerate(fh, 1):
                        if k == case:
                            open(res.violations[-1][2] + ".case", "w").write(cl)
                            break
    classes = set()
    with open(trace) as fh:
        for k, line in enumerate(fh):
            e = json.loads(line)
            if e["ev"] == "PPVersions":
                classes.add(("v", e["accepted"], e["noOverlap"], len(e["remote"])))
            else:
                classes.add((e["fail"], e["dir"], e["phase"], e["sealed"], e["labeled"], e["comp"], e["join"],
                             "early" if 0 <= e["cutAt"] < 8 else "late"))
                if len(res.cov["samples"]) < 3 and e["fail"] == "cut":
                    res.cov["samples"].append(e)
    res.cov["distinct_nontrivial"] += len(classes)
    res.assumptions += [
        "a cut is an in-transit truncation: the writer's Write succeeds, the reader receives the first k bytes and then "
        "end-of-stream; quick tier: offsets at every phase boundary +-1, the middle and a seeded offset; thorough: every offset",
        "oversized declarations are sent by a raw peer in plaintext; the sealed / labelled variants of the caps are covered "
        "by the hostile-input check",
    ]


def judge_pp(work, trace):
    from concurrent.futures import ThreadPoolExecutor
    with open(trace) as fh:
        lines = fh.readlines()
    chunk = 25000
    parts = []
    for k in range(0, len(lines), chunk):
        p = "%s.part%d" % (trace, k // chunk)
        open(p, "w").writelines(lines[k:k + chunk])
        parts.append((p, k))
    agg = {"verdicts": [], "drift": [], "lines": 0, "stat2": {}}
    with ThreadPoolExecutor(max_workers=8) as ex:
        for (p, off), j in zip(parts, ex.map(lambda pq: vlib.judge(work, "TracePP", "TracePP.cfg", pq[0]), parts)):
            agg["verdicts"] += [(f, l + off, c, g) for (f, l, c, g) in j["verdicts"]]
            agg["drift"] += [(f, l + off, c, g) for (f, l, c, g) in j["drift"]]
            agg["lines"] += j["lines"]
            for k, v in j["stat2"].items():
                a = agg["stat2"].setdefault(k, [0, 0])
                a[0] += v[0]
                a[1] += v[1]
            os.remove(p)
    return agg
