"""Seeded plans for the multi-node simulations (C03, C04, C05).  A plan is a JSON object
understood by harness/zz_verif_cluster_test.go.  Bounds used here mirror spec/TraceCluster.tla."""
import math
import random

FAMILIES = {
    # probeInterval, probeTimeout, pushPull, suspMult, maxMult, awMax, gossipDead, tcp  (ms)
    "lan":   dict(pi=1000, pt=500, pp=30000, sm=4, mm=6, aw=8, gd=30000, tcp=10000),
    "local": dict(pi=1000, pt=200, pp=15000, sm=3, mm=6, aw=8, gd=15000, tcp=1000),
    "fast":  dict(pi=200, pt=100, pp=5000, sm=4, mm=6, aw=8, gd=5000, tcp=2000),
    # an answer may take longer than the pause between two probes (ProbeTimeout >= ProbeInterval is a legal configuration:
    # the probe then ends at its deadline, without time for indirect probes, and still counts as failed)
    "slowack": dict(pi=200, pt=300, pp=5000, sm=4, mm=6, aw=8, gd=5000, tcp=2000),
}


def node_scale_1000(n):
    return 1000 if n <= 10 else int(math.floor(math.log10(n) * 1000))


def detect_bound(fam, n, max_delay):
    f = FAMILIES[fam]
    max_susp = (f["mm"] * f["sm"] * node_scale_1000(n) * f["pi"]) // 1000
    return (2 * n + 2) * f["aw"] * f["pi"] + max_susp + max_delay


def settle_rounds(n):
    if n <= 2:
        return 30
    return int(math.ceil(9 * math.log(10) / -math.log((n - 2.0) / (n - 1.0))))


def settle_time(fam, n, max_delay):
    f = FAMILIES[fam]
    return settle_rounds(n) * f["pp"] + 2 * detect_bound(fam, n, max_delay)


def variant(rng, plan):
    plan["indirectChecks"] = rng.choice([0, 1, 3])
    plan["ports"] = rng.random() < 0.5           # every member on a port of its own
    plan["noTcp"] = rng.random() < 0.3
    plan["compression"] = rng.random() < 0.5
    if rng.random() < 0.3:
        plan["label"] = "blue"
    if rng.random() < 0.3:
        plan["key"] = "0123456789abcdef"
    return plan


def starts(names, rng, chain=False):
    ev = []
    for i, nm in enumerate(names):
        ev.append({"at": 3 * i, "kind": "start", "node": nm})
    for i, nm in enumerate(names[1:], 1):
        to = names[0] if not chain else names[rng.randrange(0, i)]
        ev.append({"at": 300 + 40 * i + rng.randrange(0, 30), "kind": "join", "node": nm, "to": to})
    return ev


def plan_c03(pid, rng, tier):
    slowack = pid % 6 == 5
    n = rng.randint(3, 7 if tier == "quick" else 12)
    fam = rng.choice(["lan", "local", "fast"])
    if slowack:
        fam = "slowack"
    f = FAMILIES[fam]
    names = ["n%d" % (i + 1) for i in range(n)]
    jit = rng.choice([5, 20, f["pt"] // 3])
    plan = variant(rng, {"id": pid, "seed": rng.randrange(1 << 30), "nodes": names, "family": fam, "healthy": False})
    ev = [{"at": 0, "kind": "faults", "delay": 1, "jitter": jit}] + starts(names, rng)
    # survivors suffer loss / duplication after the cluster formed
    t_form = 300 + 40 * n + 2000
    ev.append({"at": t_form, "kind": "faults", "delay": 1, "jitter": jit, "loss": rng.choice([0, 0.1, 0.3]),
               "dup": rng.choice([0, 0.1])})
    if pid % 4 == 3:
        # a dead member is forgotten sooner than the longest suspicion lasts: a suspicion that nobody
        # confirms is still running when the probe cursor wraps and reaps
        plan["gossipDead"] = max(f["pi"], (f["mm"] * f["sm"] * f["pi"]) // 5)
    ncrash = 1 if n <= 3 else rng.choice([1, 1, 2])
    victims = rng.sample(names[1:], ncrash)
    if n >= 4 and pid % 3 == 1:
        # a member leaves gracefully and its process goes away while the cluster is still healthy
        lv = rng.choice([x for x in names[1:] if x not in victims])
        ev.append({"at": t_form - 1500, "kind": "leave", "node": lv, "timeout": 1000})
        ev.append({"at": t_form - 400, "kind": "depart", "node": lv})
    when = rng.choice(["join", "steady", "steady", "pushpull"])
    t = {"join": rng.randrange(250, 300 + 40 * n + 200), "steady": t_form + rng.randrange(0, 20000),
         "pushpull": t_form + f["pp"] + rng.randrange(-200, 200)}[when]
    last = t
    for i, v in enumerate(victims):
        at = t + i * rng.choice([137, f["pi"] * 3, f["pi"] * f["sm"]])   # possibly inside the first one's suspicion window
        # half of the crashes take the whole host away: connection attempts go unanswered instead of being refused
        ev.append({"at": at, "kind": "crash", "node": v, "host": rng.random() < 0.5})
        last = max(last, at)
    plan["events"] = ev
    plan["endAt"] = last + 2 * detect_bound(fam, n, 1 + jit) + 5000
    plan["settle"] = 0
    return plan


def plan_c04(pid, rng, tier):
    n = rng.randint(2, 6 if tier == "quick" else 10)
    fam = rng.choice(["lan", "local", "fast"])
    f = FAMILIES[fam]
    names = ["n%d" % (i + 1) for i in range(n)]
    maxd = f["pt"] // 2 - 3
    delay = rng.choice([1, maxd // 4])
    jit = rng.choice([1, maxd // 2, maxd - delay])
    plan = variant(rng, {"id": pid, "seed": rng.randrange(1 << 30), "nodes": names, "family": fam, "healthy": True})
    ev = [{"at": 0, "kind": "faults", "delay": delay, "jitter": jit}] + starts(names, rng, chain=rng.random() < 0.5)
    t0 = 300 + 40 * n + 3000
    dur = rng.choice([30000, 60000, 120000])
    leavers = []
    for k in range(rng.randint(0, 6)):
        at = t0 + rng.randrange(0, dur)
        nm = rng.choice(names)
        kind = rng.choice(["update", "update", "leave"])
        if kind == "leave":
            if nm in leavers or len(leavers) >= max(0, n - 2):
                continue
            leavers.append(nm)
            ev.append({"at": at, "kind": "leave", "node": nm, "timeout": 5000})
            if rng.random() < 0.7:
                # the normal graceful departure: Leave, then the process goes away
                ev.append({"at": at + 5000 + rng.choice([100, 3000]), "kind": "depart", "node": nm})
        elif nm not in leavers:
            ev.append({"at": at, "kind": "update", "node": nm, "meta": "m-%s-%d" % (nm, k + 1), "timeout": 5000})
    if pid % 3 == 0:
        # the application is slow with user messages (longer than a probe round each) and gets bursts of them:
        # that is the application's business, the member itself stays responsive
        plan["slowMsg"] = 2 * f["pi"] + rng.choice([0, f["pi"]])
        plan["noTcp"] = True
        for k in range(rng.randint(2, 5)):
            a, b = rng.sample(names, 2)
            if a in leavers or b in leavers:
                continue
            ev.append({"at": t0 + rng.randrange(0, dur), "kind": "burst", "node": a, "to": b, "count": rng.randint(3, 8)})
    plan["events"] = ev
    plan["endAt"] = t0 + dur + 20000
    plan["settle"] = 0
    plan["maxDelay"] = delay + jit
    return plan


def plan_c05(pid, rng, tier, maxn=None):
    n = rng.randint(3, maxn or (6 if tier == "quick" else 10))
    if pid % 6 == 3:
        n = 3                                              # (directed plan 3: every member is probed by every other in a moment)
    fam = "fast" if tier == "quick" or rng.random() < 0.7 else rng.choice(["local", "lan"])
    f = FAMILIES[fam]
    names = ["n%d" % (i + 1) for i in range(n)]
    plan = variant(rng, {"id": pid, "seed": rng.randrange(1 << 30), "nodes": names, "family": fam, "healthy": False})
    ev = [{"at": 0, "kind": "faults", "delay": 1, "jitter": 10}] + starts(names, rng)
    t0 = 300 + 40 * n + 2000
    dur = rng.choice([20000, 45000, 90000])
    ev.append({"at": t0, "kind": "faults", "delay": 1, "jitter": rng.choice([10, f["pt"]]), "loss": rng.choice([0.05, 0.2, 0.5]),
               "dup": rng.choice([0, 0.2]), "cut": rng.choice([0, 0.3])})
    down, left = set(), set()
    directed = pid % 6
    if directed == 0:
        # announcements missed by everybody: datagrams are blacked out for a while (streams still work, so the
        # TCP fallback keeps every probe succeeding and nobody is suspected) while a member updates its metadata;
        # every gossip copy is lost and only push/pull can repair the views afterwards
        owner = rng.choice(names)
        at = t0 + rng.randrange(0, 3000)
        plan["noTcp"] = False
        ev[-1].update(loss=0.05, jitter=10, cut=0)      # few false accusations: a refutation would be a new announcement
        base = dict(ev[-1])
        ev.append(dict(base, at=at, loss=1.0, cut=0))
        ev.append({"at": at + 20, "kind": "update", "node": owner, "meta": "m-%s-late" % owner, "timeout": 3000})
        ev.append(dict(base, at=at + 5 * f["pi"]))
        left.add(owner)      # (kept out of the random crashes, leaves and updates below)
    elif directed == 1 and n >= 3:
        # a member leaves, its process goes away, it is forgotten (reaped), and it comes back under the same name and address
        lv = rng.choice(names[1:])
        at = t0 + rng.randrange(0, 3000)
        away = f["gd"] + (2 * n + 2) * f["pi"] + rng.choice([500, 5000])
        ev.append({"at": at, "kind": "leave", "node": lv, "timeout": 2000})
        ev.append({"at": at + 2500, "kind": "depart", "node": lv})
        ev.append({"at": at + 2500 + away, "kind": "restart", "node": lv})
        ev.append({"at": at + 2500 + away + 150, "kind": "join", "node": lv, "to": rng.choice([x for x in names if x != lv])})
        dur = max(dur, 3000 + 2500 + away + 2000)
        left.add(lv)
    elif directed == 2:
        # a member crashes, is declared dead by everybody, the announcements die down, and it comes back on the same
        # address with its incarnation starting over - while the others remember the dead for a long time
        # (GossipToTheDeadTime 1 h): only what they tell it in a push/pull makes it refute its own death
        plan["gossipDead"] = 3600000
        vic = rng.choice(names[1:])
        at = t0 + rng.randrange(0, 3000)
        back = at + detect_bound(fam, n, 11) + 3000
        ev[-1].update(loss=0.05, jitter=10, cut=0)
        ev.append({"at": at, "kind": "crash", "node": vic})
        ev.append({"at": back, "kind": "restart", "node": vic})
        ev.append({"at": back + 150, "kind": "join", "node": vic, "to": rng.choice([x for x in names if x != vic])})
        dur = max(dur, back - t0 + 3000)
        left.add(vic)
    elif directed == 3:
        # every member is falsely suspected for a moment (a short datagram blackout without TCP fallback), everybody
        # refutes, and later one member really crashes: the earlier, refuted suspicion must not stand in the way
        plan["noTcp"] = True
        ev[-1].update(loss=0.02, jitter=10, cut=0)
        base = dict(ev[-1])
        at = t0 + rng.randrange(0, 2000)
        black = 2 * f["pi"] + f["pt"]                      # below the shortest suspicion timeout (SuspicionMult x ProbeInterval)
        ev.append(dict(base, at=at, loss=1.0))
        ev.append(dict(base, at=at + black))
        vic = rng.choice(names[1:])
        ev.append({"at": at + black + 10 * f["pi"], "kind": "crash", "node": vic})
        dur = max(dur, black + 12 * f["pi"])
        left.update(names)                                 # (no random crashes, leaves or updates on top)
    elif directed == 4:
        # a member has announced several metadata changes (its incarnation has grown), crashes and is back at once on
        # the same address with its incarnation starting over; the others tell it what they remember, it refutes - and
        # then the application changes the metadata again: that announcement must not be older than the refutation
        vic = rng.choice(names[1:])
        ev[-1].update(loss=0.05, jitter=10, cut=0)
        at = t0 + rng.randrange(0, 1000)
        for k in range(3):
            ev.append({"at": at + 1500 * k, "kind": "update", "node": vic, "meta": "m-%s-first%d" % (vic, k + 1), "timeout": 1000})
        crash = at + 5000
        ev.append({"at": crash, "kind": "crash", "node": vic})
        ev.append({"at": crash + 300, "kind": "restart", "node": vic})
        ev.append({"at": crash + 450, "kind": "join", "node": vic, "to": rng.choice([x for x in names if x != vic])})
        ev.append({"at": crash + 450 + 4000, "kind": "update", "node": vic, "meta": "m-%s-second-life" % vic, "timeout": 3000})
        dur = max(dur, crash + 6000 - t0)
        left.add(vic)
    for k in range(rng.randint(1, 8) if directed not in (0, 1, 2, 3, 4) else rng.randint(0, 2)):
        at = t0 + rng.randrange(0, dur)
        kind = rng.choice(["partition", "partition", "crash", "crash", "leave", "update"])
        nm = rng.choice(names)
        if kind == "partition":
            groups = {x: rng.randrange(0, 2) for x in names}
            ev.append({"at": at, "kind": "partition", "groups": groups})
            ev.append({"at": at + rng.choice([500, 3000, 12000, 30000]), "kind": "heal"})
        elif kind == "crash":
            if len(down | left) >= n - 2 or nm in down or nm in left:
                continue
            down.add(nm)
            ev.append({"at": at, "kind": "crash", "node": nm})
            if rng.random() < 0.6:   # same-address restart
                back = at + rng.choice([300, 2000, 15000])
                ev.append({"at": back, "kind": "restart", "node": nm})
                ev.append({"at": back + 150, "kind": "join", "node": nm, "to": rng.choice([x for x in names if x != nm])})
                down.discard(nm)
        elif kind == "leave":
            if len(down | left) >= n - 2 or nm in down or nm in left:
                continue
            left.add(nm)
            ev.append({"at": at, "kind": "leave", "node": nm, "timeout": 3000})
        elif nm not in left:
            ev.append({"at": at, "kind": "update", "node": nm, "meta": "m-%s-%d" % (nm, k + 1), "timeout": 3000})
    t_stop = t0 + dur + 45000
    ev.append({"at": t_stop - 10, "kind": "heal"})
    ev.append({"at": t_stop - 5, "kind": "faults", "delay": 1, "jitter": 10})
    ev.append({"at": t_stop, "kind": "stop"})
    plan["events"] = ev
    settle = settle_time(fam, n, 11)
    plan["settle"] = settle
    plan["endAt"] = t_stop + settle + 1000
    return plan


def plan_c15(pid, rng, tier):
    """fault plans and healthy plans alike, always with a key (and mostly a label): every buffer is opened by the tap"""
    p = plan_c05(pid, rng, tier, 6) if pid % 2 else plan_c04(pid, rng, tier)
    p["key"] = "0123456789abcdef"
    if pid % 3:
        p["label"] = "blue"
    p["proto"] = 1 if pid % 5 == 0 else 0          # protocol 1 = encryption version 0 (padded)
    if pid % 2:
        # in the fault plans the transport also refuses packets now and then with a transient local error (a full socket
        # buffer): whatever the node does about it - give up, try again - what it hands over must be sealed
        for e in p["events"]:
            if e.get("kind") == "faults" and e.get("loss", 0) > 0:
                e["senderr"] = 0.1
    return p


def make(prop, tier, seed, count, maxn=None):
    rng = random.Random("%s-%s-%d" % (prop, tier, seed))
    if prop == "C15":
        return [plan_c15(i + 1, rng, tier) for i in range(count)]
    if prop == "C05" and maxn:
        return [plan_c05(i + 1, rng, tier, maxn) for i in range(count)]
    f = {"C03": plan_c03, "C04": plan_c04, "C05": plan_c05}[prop]
    return [f(i + 1, rng, tier) for i in range(count)]
