"""C03 C04 C05: multi-node simulations of real Memberlist instances, judged by TLC (TraceCluster)."""
import json
import os

import simplans
import vlib
from vlib import Infra, log


def cluster_key(formula, line):
    e = json.loads(line)
    if e.get("ev") == "NodeOp":
        import stages_view
        return stages_view.step_key(formula, line)
    return "%s:%s" % (formula, e.get("ev"))


def cluster_model(work, res, tier, prop=""):
    """design level: the 2-node Cluster model exhaustively (safety + liveness under fairness); 3 nodes by random walks"""
    r = vlib.model_check(work, "Cluster", "Cluster_2n.cfg", workers=max(2, vlib.NCPU // 2))
    res.add_model(r)
    log("model Cluster_2n.cfg: %d states, %d transitions (safety, C03_Detected, C05_Converges under fairness)" %
        (r["states"], r["transitions"]))
    if tier == "thorough":
        rc, out, wall = vlib.run_tlc(work, "Cluster", "Cluster_3n_sim.cfg", workers=vlib.NCPU, timeout=900,
                                     extra=["-simulate", "num=20000", "-depth", "80", "-seed", str(vlib.SEED)])
        if "is violated" in out or (rc != 0 and "Finished" not in out and "states" not in out):
            raise Infra("Cluster_3n_sim failed:\n" + "\n".join(out.splitlines()[-25:]))
        res.cov["models"].append({"module": "Cluster", "cfg": "Cluster_3n_sim.cfg", "mode": "simulate num=20000 depth=80",
                                  "wall_s": round(wall, 1)})
        if prop == "C03":
            # three nodes exhaustively under the smallest bounds (one fault action, one message in flight, one transmission per
            # broadcast): third-party confirmations, hearsay about a third member, a departure relayed by push/pull.
            # Measured: 11 152 695 distinct states, 150 600 285 generated, 30 min with 6 workers on a busy machine.
            r3 = vlib.model_check(work, "Cluster", "Cluster_3n_small.cfg", timeout=5400, workers=vlib.NCPU)
            res.add_model(r3)
            log("model Cluster_3n_small.cfg: %d states, %d transitions (safety, exhaustive, 3 nodes)" % (r3["states"], r3["transitions"]))


def sim_stage(work, res, prop, tier, prefixes, count, replay=None, model=True, maxn=None):
    binp = vlib.build_harness(work)
    if model and not replay:
        cluster_model(work, res, tier, prop)
    d = work.sub("sim")
    plans = os.path.join(d, "plans.ndjson")
    if replay:
        src = replay + ".plan"
        if not os.path.exists(src):
            raise Infra("no plan file next to " + replay)
        with open(src) as fh, open(plans, "w") as out:
            out.write(fh.read())
        count = 1
    else:
        ps = simplans.make(prop, tier, vlib.SEED, count, maxn)
        with open(plans, "w") as fh:
            for p in ps:
                fh.write(json.dumps(p) + "\n")
    nsh = max(1, min(vlib.NCPU, 16, count))
    vlib.run_sharded(work, binp, "TestVerifClusterSim", nsh,
                     lambda i: {"VERIF_PLANS": plans, "VERIF_TRACE": os.path.join(d, "t%d.ndjson" % i)}, timeout=3000)
    from concurrent.futures import ThreadPoolExecutor

    def one(i):
        tr = os.path.join(d, "t%d.ndjson" % i)
        if not os.path.exists(tr) or os.path.getsize(tr) == 0:
            return tr, None
        return tr, vlib.judge(work, "TraceCluster", "TraceCluster.cfg", tr, timeout=3000)
    stat2 = {}
    classes = set()
    with ThreadPoolExecutor(max_workers=nsh) as ex:
        for tr, j in ex.map(one, range(nsh)):
            if j is None:
                continue
            res.cov["evaluations"] += j["lines"]
            res.cov["drift"] += len(j["drift"])
            if j["drift"]:
                log("DRIFT module=MLCore (simulation) fields=%s steps=%d (not a verdict)" %
                    (",".join(sorted(set(x[0] for x in j["drift"]))), len(j["drift"])))
            for name, (a, b) in j.get("stat2", {}).items():
                s = stat2.setdefault(name, [0, 0])
                s[0] += a
                s[1] += b
            mine = [v for v in j["verdicts"] if any(v[0].startswith(p) for p in prefixes)]
            other = sorted(set(v[0] for v in j["verdicts"] if v not in mine))
            if other:
                log("note: verdicts of other properties on a simulation trace: %s" % other)
            if mine:
                lines = vlib.read_lines(tr, [v[1] for v in mine])
                for formula, ln, case, g in mine:
                    key = cluster_key(formula, lines[ln])
                    n0 = len(res.violations)
                    res.violation(formula, key, [lines[ln]], what="plan=%d" % case)
                    if len(res.violations) > n0 and res.violations[-1][2]:
                        with open(plans) as fh:
                            for pl in fh:
                                if json.loads(pl)["id"] == case:
                                    open(res.violations[-1][2] + ".plan", "w").write(pl)
    # send sites the buffers of keyed plans came from (SealStat lines)
    sites = set()
    for i in range(nsh):
        tr = os.path.join(d, "t%d.ndjson" % i)
        if os.path.exists(tr):
            with open(tr) as fh:
                for line in fh:
                    if '"ev":"SealStat"' in line:
                        sites.update(json.loads(line)["names"])
    res.cov.setdefault("_sites", set()).update(sites)
    res.cov["traces_validated_against_impl"] += count
    res.cov["sim"] = {k: {"judged": v[0], "of": v[1]} for k, v in sorted(stat2.items())}
    with open(plans) as fh:
        for k, pl in enumerate(fh):
            p = json.loads(pl)
            classes.add((len(p["nodes"]), p["family"], p.get("indirectChecks"), p.get("noTcp"), p.get("compression"),
                         bool(p.get("label")), bool(p.get("key")),
                         tuple(sorted(set(e["kind"] for e in p["events"])))))
            if k < 2:
                res.cov["samples"].append({"plan": {kk: p[kk] for kk in ("nodes", "family", "endAt", "settle")},
                                           "events": [e for e in p["events"] if e["kind"] not in ("start",)][:12]})
    res.cov["distinct_nontrivial"] += len(classes)
    return stat2
