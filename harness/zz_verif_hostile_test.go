//go:build verif

package memberlist

// Hostile input classes fired at a real node (DESIGN.md §5 C13).  Every class
// printed by TLC from spec/Hostile.tla (path x receiver configuration x layer
// x defect) is turned into concrete byte strings, wrapped in the envelope the
// receiver's configuration expects (label header, genuine encryption), and
// injected through the node's transport.  Recorded: whether the node's view
// changed, how many bytes of a stream it consumed, what it replied, how long it
// kept the stream open.  A panic kills the process; the driver attributes it to
// the journalled class.

import (
	"bufio"
	"bytes"
	"compress/lzw"
	"crypto/rand"
	"encoding/binary"
	"encoding/json"
	"fmt"
	"hash/crc32"
	"net"
	"os"
	"sync"
	"testing"
	"testing/synctest"
	"time"

	"github.com/hashicorp/go-msgpack/v2/codec"
)

type vHClass struct {
	Path     string `json:"path"`
	Cfg      string `json:"cfg"`
	Layer    string `json:"layer"`
	Defect   string `json:"defect"`
	Oversize bool   `json:"oversize"`
}

type vHLine struct {
	Ev   string `json:"ev"`
	Case int    `json:"case"`
	vHClass
	Variant   int    `json:"variant"`
	Len       int    `json:"len"`       // bytes of the hostile input proper
	HeaderLen int    `json:"headerLen"` // bytes up to and including the declaring header (oversize classes)
	Accepted  int    `json:"accepted"`  // stream: bytes the node consumed before it stopped reading
	Offered   int    `json:"offered"`   // stream: bytes offered in total
	Changed   bool   `json:"changed"`   // the node's membership or delegate state changed
	Reply     string `json:"reply"`
	ClosedMs  int64  `json:"closedMs"` // stream: when the node closed it (-1: not within the wait)
	TimeoutMs int64  `json:"timeoutMs"`
	Panic     string `json:"panic"`
	Qmax      int    `json:"qmax"` // handoff flood: the longest the handoff queues ever were
	Qcap      int    `json:"qcap"` // ... and the configured depth
}

func vHCfg(name string) vWCfg {
	switch name {
	case "labeled":
		return vWCfg{Label: "blue", Vin: true, Vout: true, Proto: 2, Comp: true}
	case "sealed-verify":
		return vWCfg{Keys: []string{"k1"}, Vin: true, Vout: true, Proto: 2, Comp: true}
	case "sealed-lenient":
		return vWCfg{Keys: []string{"k1"}, Vin: false, Vout: true, Proto: 2, Comp: true}
	}
	return vWCfg{Vin: true, Vout: true, Proto: 2, Comp: true}
}

func vMsgpack(v any) []byte {
	var buf bytes.Buffer
	hd := codec.MsgpackHandle{}
	_ = codec.NewEncoder(&buf, &hd).Encode(v)
	return buf.Bytes()
}

func vCompressRaw(algo uint8, raw []byte) []byte {
	var lz bytes.Buffer
	w := lzw.NewWriter(&lz, lzw.LSB, 8)
	_, _ = w.Write(raw)
	_ = w.Close()
	return append([]byte{byte(compressMsg)}, vMsgpack(&compress{Algo: compressionType(algo), Buf: lz.Bytes()})...)
}

var vBombOnce sync.Once
var vBomb []byte

func vBombPayload() []byte {
	vBombOnce.Do(func() {
		vBomb = vCompressRaw(0, make([]byte, maxDecompressedBytes+4096))
	})
	return vBomb
}

func vValidPing() []byte {
	b, _ := encode(pingMsg, &ping{SeqNo: 5, Node: "10.0.0.2"}, false)
	return b.Bytes()
}

func vValidAlive() []byte {
	b, _ := encode(aliveMsg, &alive{Incarnation: 9, Node: "mallory", Addr: []byte{10, 9, 9, 9}, Port: 7946, Vsn: []uint8{1, 5, 2, 0, 0, 0}}, false)
	return b.Bytes()
}

// vHostileInner: the hostile plaintext for a class (several variants), and the length of the declaring header
func vHostileInner(c vHClass) (out [][]byte, headerLen int) {
	switch c.Layer + "/" + c.Defect {
	case "crc/badsum":
		p := vValidPing()
		h := make([]byte, 5)
		h[0] = byte(hasCrcMsg)
		binary.BigEndian.PutUint32(h[1:], crc32.ChecksumIEEE(p)+1)
		out = append(out, append(h, p...))
	case "crc/truncated":
		out = append(out, []byte{byte(hasCrcMsg), 1, 2}, []byte{byte(hasCrcMsg)}, []byte{byte(hasCrcMsg), 0, 0, 0, 0})
	case "compress/bomb":
		out = append(out, vBombPayload())
		headerLen = len(vBombPayload())
	case "compress/garbage":
		junk := make([]byte, 64)
		_, _ = rand.Read(junk)
		out = append(out, append([]byte{byte(compressMsg)}, vMsgpack(&compress{Algo: 0, Buf: junk})...),
			append([]byte{byte(compressMsg)}, junk...), []byte{byte(compressMsg)})
	case "compress/nested":
		p := vValidAlive()[:8] // an undecodable message at the bottom of the nesting
		for i := 0; i < 40; i++ {
			p = vCompressRaw(0, p)
		}
		out = append(out, p)
	case "compress/unknownalgo":
		out = append(out, vCompressRaw(9, vValidAlive()))
	case "compound/truncated":
		out = append(out, []byte{byte(compoundMsg), 5, 0, 3, 0, 4}, []byte{byte(compoundMsg), 2, 0, 200, 0, 200, 1, 2, 3}, []byte{byte(compoundMsg)})
	case "compound/nested":
		p := vValidAlive()[:8]
		for i := 0; i < 300; i++ {
			p = makeCompoundMessage([][]byte{p}).Bytes()
			if len(p) > 60000 {
				break
			}
		}
		out = append(out, p)
	case "compound/empty":
		out = append(out, []byte{byte(compoundMsg), 0}, []byte{byte(compoundMsg), 255})
	case "body/truncated":
		a, p := vValidAlive(), vValidPing()
		out = append(out, a[:len(a)/2], a[:2], p[:len(p)-1])
		sus, _ := encode(suspectMsg, &suspect{Incarnation: 1, Node: "10.0.0.2", From: "m"}, false)
		out = append(out, sus.Bytes()[:sus.Len()-2])
	case "body/wrongtype":
		out = append(out, append([]byte{byte(aliveMsg)}, vMsgpack("just a string")...), append([]byte{byte(deadMsg)}, vMsgpack([]int{1, 2, 3})...),
			append([]byte{byte(pingMsg)}, vMsgpack(map[string]any{"SeqNo": "not a number"})...),
			append([]byte{byte(indirectPingMsg)}, vMsgpack(map[string]any{"Target": 17, "Port": "x"})...))
	case "body/unknownmsg":
		out = append(out, []byte{200, 1, 2, 3}, []byte{byte(errMsg) + 1}, []byte{byte(hasLabelMsg) - 1, 0})
	case "body/empty":
		out = append(out, []byte{byte(aliveMsg)}, []byte{byte(suspectMsg)}, []byte{byte(deadMsg)}, []byte{byte(ackRespMsg)}, []byte{byte(nackRespMsg)},
			[]byte{byte(indirectPingMsg)}, []byte{byte(pushPullMsg)}, []byte{byte(pingMsg)})
	case "pushpull/nodecap":
		h := append([]byte{byte(pushPullMsg)}, vMsgpack(&pushPullHeader{Nodes: maxPushStateNodes + 1, UserStateLen: 0, Join: true})...)
		out, headerLen = append(out, h), len(h)
	case "pushpull/negative":
		out = append(out, append([]byte{byte(pushPullMsg)}, vMsgpack(&pushPullHeader{Nodes: -5})...),
			append([]byte{byte(pushPullMsg)}, vMsgpack(&pushPullHeader{Nodes: 0, UserStateLen: -1})...))
	case "pushpull/usercap":
		h := append([]byte{byte(pushPullMsg)}, vMsgpack(&pushPullHeader{Nodes: 0, UserStateLen: maxPushStateBytes + 1})...)
		out, headerLen = append(out, h), len(h)
	case "pushpull/concurrent":
		// a complete, well-formed exchange of some size: 64 members and 60000 bytes of user state
		h := append([]byte{byte(pushPullMsg)}, vMsgpack(&pushPullHeader{Nodes: 64, UserStateLen: 60000, Join: false})...)
		body := append([]byte(nil), h...)
		for i := 0; i < 64; i++ {
			body = append(body, vMsgpack(&pushNodeState{Name: fmt.Sprintf("mallory-%d", i), Addr: []byte{10, 9, 0, byte(i)}, Port: 7946,
				Incarnation: 1, State: StateAlive, Vsn: []uint8{1, 5, 2, 0, 0, 0}})...)
		}
		body = append(body, make([]byte, 60000)...)
		out, headerLen = append(out, body), len(h)
	case "handoff/flood":
		// a flood of user messages (low-priority queue), and a flood of alive messages (high-priority queue)
		out = append(out, append([]byte{byte(userMsg)}, []byte("flood")...), vValidAlive())
	case "usermsg/cap":
		h := append([]byte{byte(userMsg)}, vMsgpack(&userMsgHeader{UserMsgLen: maxUserMsgBytes + 1})...)
		out, headerLen = append(out, h), len(h)
	case "usermsg/short":
		out = append(out, append(append([]byte{byte(userMsg)}, vMsgpack(&userMsgHeader{UserMsgLen: 100})...), []byte("only ten b")...))
	case "stream/silent":
		out = append(out, []byte{})
	case "stream/slow":
		out = append(out, []byte{byte(pushPullMsg)}, []byte{byte(encryptMsg)}, []byte{244})
	}
	return out, headerLen
}

// vHostileWire wraps a hostile plaintext in the envelope the receiver's configuration expects
func vHostileWire(c vHClass, cfg vWCfg, inner []byte) []byte {
	switch c.Layer + "/" + c.Defect {
	case "label/truncated":
		return []byte{244, 10, 'a', 'b'}
	case "label/empty":
		return append([]byte{244, 0}, vValidPing()...)
	case "enc/truncated":
		if c.Path == "stream" {
			return []byte{byte(encryptMsg), 0, 0, 0, 10, 1, 2, 3}
		}
		return []byte{1, 2, 3, 4, 5, 6, 7, 8, 9, 10}
	case "enc/badversion":
		junk := make([]byte, 60)
		_, _ = rand.Read(junk)
		junk[0] = 7
		if c.Path == "stream" {
			h := []byte{byte(encryptMsg), 0, 0, 0, byte(len(junk))}
			return append(h, junk...)
		}
		return junk
	case "enc/oversize":
		return []byte{byte(encryptMsg), 0x7f, 0xff, 0xff, 0xff}
	}
	key := []byte(nil)
	if len(cfg.Keys) > 0 {
		key = vWKeys[cfg.Keys[0]]
	}
	body := inner
	if key != nil && !(c.Layer == "stream") {
		nonce := make([]byte, 12)
		_, _ = rand.Read(nonce)
		if c.Path == "packet" {
			ct := vSealGCM(key, nonce, inner, []byte(cfg.Label))
			body = append(append([]byte{1}, nonce...), ct...)
		} else {
			n := 1 + 12 + len(inner) + 16
			hdr := []byte{byte(encryptMsg), 0, 0, 0, 0}
			binary.BigEndian.PutUint32(hdr[1:], uint32(n))
			aad := append(append([]byte(nil), hdr...), cfg.Label...)
			ct := vSealGCM(key, nonce, inner, aad)
			body = append(append(append([]byte(nil), hdr...), append([]byte{1}, nonce...)...), ct...)
		}
	}
	return vWithLabel(cfg.Label, body)
}

func vRunHostile(t *testing.T, s *vSink, id int, c vHClass) []vHLine {
	cfg := vHCfg(c.Cfg)
	nw := vNewNet(int64(id))
	ipB := net.IPv4(10, 0, 0, 2).To4()
	B := vWNewNode(t, nw, ipB.String(), ipB, cfg)
	defer func() { _ = B.m.Shutdown() }()
	B.m.aliveNode(&alive{Incarnation: 4, Node: "friend", Addr: []byte{10, 0, 0, 7}, Port: 7946, Vsn: []uint8{1, 5, 2, 0, 0, 0}}, nil, false)
	digest := func() string {
		B.m.nodeLock.RLock()
		defer B.m.nodeLock.RUnlock()
		out := ""
		for _, name := range []string{"friend", "mallory", ipB.String()} {
			if st, ok := B.m.nodeMap[name]; ok {
				out += fmt.Sprintf("%s:%d:%d;", name, st.State, st.Incarnation)
			}
		}
		B.d.mu.Lock()
		out += fmt.Sprintf("n=%d,msgs=%d,states=%d", len(B.m.nodeMap), len(B.d.msgs), len(B.d.states))
		B.d.mu.Unlock()
		return out
	}
	inners, headerLen := vHostileInner(c)
	if len(inners) == 0 {
		inners = [][]byte{nil}
	}
	var lines []vHLine
	for vi, inner := range inners {
		wire := vHostileWire(c, cfg, inner)
		l := vHLine{Ev: "HostileCase", Case: id, vHClass: c, Variant: vi, Len: len(wire), Reply: "none", ClosedMs: -1,
			TimeoutMs: B.m.config.TCPTimeout.Milliseconds()}
		if headerLen > 0 {
			l.HeaderLen = len(wire) - len(inner) + headerLen
			if len(cfg.Keys) > 0 {
				l.HeaderLen = len(wire) // sealed: the declaring header is inside the ciphertext, which is read as a whole
			}
		}
		d0 := digest()
		if c.Defect == "concurrent" {
			// as many push/pulls as the cap allows are in progress (each has announced a state and is still sending it)
			open := append([]byte{byte(pushPullMsg)}, vMsgpack(&pushPullHeader{Nodes: 3, UserStateLen: 0, Join: false})...)
			hold := vHostileWire(c, cfg, open)
			var held []net.Conn
			for i := 0; i < maxPushPullRequests; i++ {
				h1, h2 := net.Pipe()
				B.tr.streamCh <- h1
				go func() { _, _ = h2.Write(hold) }()
				held = append(held, h2)
			}
			time.Sleep(20 * time.Millisecond)
			synctest.Wait()
			defer func() {
				for _, h := range held {
					_ = h.Close()
				}
			}()
		}
		if c.Defect == "flood" {
			// the application is busy with the first message while many more arrive
			l.Qcap = B.m.config.HandoffQueueDepth
			gate := make(chan struct{})
			B.d.mu.Lock()
			B.d.gate = gate
			B.d.mu.Unlock()
			if vi == 1 {
				// the application is busy with one user message; the flood itself is membership traffic
				stall := vHostileWire(c, cfg, append([]byte{byte(userMsg)}, []byte("stall")...))
				B.tr.packetCh <- &Packet{Buf: stall, From: &net.UDPAddr{IP: net.IPv4(10, 0, 0, 66), Port: 7946}, Timestamp: time.Now()}
				time.Sleep(time.Millisecond)
				synctest.Wait()
			}
			for i := 0; i < 3*l.Qcap; i++ {
				B.tr.packetCh <- &Packet{Buf: wire, From: &net.UDPAddr{IP: net.IPv4(10, 0, 0, 66), Port: 7946}, Timestamp: time.Now()}
				if i%64 == 63 {
					time.Sleep(time.Millisecond)
					synctest.Wait()
					B.m.msgQueueLock.Lock()
					if q := B.m.lowPriorityMsgQueue.Len() + B.m.highPriorityMsgQueue.Len(); q > l.Qmax {
						l.Qmax = q
					}
					B.m.msgQueueLock.Unlock()
				}
			}
			synctest.Wait()
			B.m.msgQueueLock.Lock()
			if q := B.m.lowPriorityMsgQueue.Len() + B.m.highPriorityMsgQueue.Len(); q > l.Qmax {
				l.Qmax = q
			}
			B.m.msgQueueLock.Unlock()
			B.d.mu.Lock()
			B.d.gate = nil
			B.d.mu.Unlock()
			close(gate)
			time.Sleep(50 * time.Millisecond)
			synctest.Wait()
			l.Changed = digest() != d0
			lines = append(lines, l)
			continue
		}
		if c.Path == "packet" {
			B.tr.packetCh <- &Packet{Buf: wire, From: &net.UDPAddr{IP: net.IPv4(10, 0, 0, 66), Port: 7946}, Timestamp: time.Now()}
			time.Sleep(30 * time.Millisecond)
		} else {
			c1, c2 := net.Pipe()
			B.tr.streamCh <- c1
			start := time.Now()
			var mu sync.Mutex
			go func() {
				k, _ := c2.Write(wire)
				mu.Lock()
				l.Accepted, l.Offered = k, len(wire)
				mu.Unlock()
				if c.Oversize {
					// keep offering data: a node that honours the cap does not take it
					junk := make([]byte, 1024)
					for i := 0; i < 64; i++ {
						_ = c2.SetWriteDeadline(time.Now().Add(200 * time.Millisecond))
						k, err := c2.Write(junk)
						mu.Lock()
						l.Accepted += k
						l.Offered += len(junk)
						mu.Unlock()
						if err != nil {
							break
						}
					}
				}
			}()
			var got bytes.Buffer
			buf := make([]byte, 65536)
			for {
				_ = c2.SetReadDeadline(time.Now().Add(B.m.config.TCPTimeout + 3*time.Second))
				k, err := c2.Read(buf)
				got.Write(buf[:k])
				if err != nil {
					if ne, ok := err.(net.Error); !(ok && ne.Timeout()) {
						l.ClosedMs = time.Since(start).Milliseconds()
					}
					break
				}
			}
			_ = c2.Close()
			time.Sleep(50 * time.Millisecond)
			mu.Lock()
			mu.Unlock()
			l.Reply = vClassifyStreamReply(got.Bytes(), cfg)
		}
		synctest.Wait()
		l.Changed = digest() != d0
		lines = append(lines, l)
	}
	return lines
}

func TestVerifHostile(t *testing.T) {
	cases, trace := os.Getenv("VERIF_CASES"), os.Getenv("VERIF_TRACE")
	if cases == "" || trace == "" {
		t.Skip("VERIF_CASES / VERIF_TRACE not set")
	}
	shard, nshard := 0, 1
	if v := os.Getenv("VERIF_SHARD"); v != "" {
		fmt.Sscanf(v, "%d/%d", &shard, &nshard)
	}
	journal := os.Getenv("VERIF_JOURNAL")
	skipTo := 0
	if v := os.Getenv("VERIF_RESUME"); v != "" {
		fmt.Sscanf(v, "%d", &skipTo)
	}
	f, err := os.Open(cases)
	if err != nil {
		t.Fatal(err)
	}
	defer f.Close()
	out, err := os.OpenFile(trace, os.O_CREATE|os.O_WRONLY|os.O_APPEND, 0o644)
	if err != nil {
		t.Fatal(err)
	}
	defer out.Close()
	w := bufio.NewWriter(out)
	sc := bufio.NewScanner(f)
	sc.Buffer(make([]byte, 1<<20), 1<<24)
	idx := 0
	for sc.Scan() {
		idx++
		if (idx-1)%nshard != shard || idx <= skipTo {
			continue
		}
		var c vHClass
		if err := json.Unmarshal(sc.Bytes(), &c); err != nil {
			t.Fatalf("class %d: %v", idx, err)
		}
		id := idx
		if journal != "" {
			_ = os.WriteFile(journal, []byte(fmt.Sprint(id)), 0o644)
		}
		synctest.Test(t, func(t *testing.T) {
			s, err := vOpenSink("")
			if err != nil {
				t.Fatal(err)
			}
			for _, l := range vRunHostile(t, s, id, c) {
				b, _ := json.Marshal(l)
				w.Write(b)
				w.WriteByte('\n')
			}
			w.Flush()
			_ = s.Close()
			time.Sleep(20 * time.Second)
			synctest.Wait()
		})
	}
}
