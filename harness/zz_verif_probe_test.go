//go:build verif

package memberlist

// Probe scenarios against a real node with scripted peers (DESIGN.md §5 C19).
//
// Every scenario printed by TLC from spec/Probe.tla is played in virtual time:
// the prober (or the relay) is a real Memberlist; the target, the indirect
// probers and the requester are scripted endpoints of simnet that answer
// exactly when the scenario says.  Recorded: whether the target was suspected,
// the health deltas, the final health score, the size of the pending-probe
// table at quiescence, and for the relay role the pings / acks / nacks it sent.
// TLC (spec/TraceProbe.tla) judges the recorded outcomes.

import (
	"bufio"
	"bytes"
	"encoding/json"
	"fmt"
	"io"
	"log"
	"net"
	"os"
	"sync"
	"testing"
	"testing/synctest"
	"time"
)

type vRelayBeh struct {
	Cap   bool `json:"cap"`
	AckAt int  `json:"ackAt"`
	Nack  bool `json:"nack"`
}

type vProbeScen struct {
	Direct      int         `json:"direct"`
	Relays      []vRelayBeh `json:"relays"`
	Tcp         string      `json:"tcp"`
	ForeignAck  int         `json:"foreignAck"`
	ForeignNack int         `json:"foreignNack"`
	DupAck      bool        `json:"dupAck"`
	Score0      int         `json:"score0"`
	SendErr     bool        `json:"sendErr"`
	DupNack     bool        `json:"dupNack"`
}

type vRelayScen struct {
	WantNack bool `json:"wantNack"`
	AckAt    int  `json:"ackAt"`
	SeqOk    bool `json:"seqOk"`
	SendErr  bool `json:"sendErr"` // the relay's own ping to the target cannot be sent (local failure)
}

// vRespScen: a ping arriving at the node under test
type vRespScen struct {
	Path  string `json:"path"`  // udp | tcp
	Named string `json:"named"` // self | other | none
	Src   string `json:"src"`   // given | absent
}

type vProbeCase struct {
	Kind string     `json:"kind"`
	S    vProbeScen `json:"s"`
	R    vRelayScen `json:"r"`
	P    vRespScen  `json:"p"`
}

type vProbeLine struct {
	Ev   string     `json:"ev"`
	Case int        `json:"case"`
	Kind string     `json:"kind"`
	S    vProbeScen `json:"s"`
	R    vRelayScen `json:"r"`
	P    vRespScen  `json:"p"`
	// prober role
	Suspect     bool  `json:"suspect"`
	Delta       int   `json:"delta"`      // sum of the health deltas applied during the probe
	ScoreAfter  int   `json:"scoreAfter"` // health score at quiescence
	Handlers    int   `json:"handlers"`   // pending-probe records at quiescence
	Returned    bool  `json:"returned"`   // probeNode returned
	TookMs      int64 `json:"tookMs"`
	AskedRelays int   `json:"askedRelays"`
	// relay role
	FreshSeq      bool   `json:"freshSeq"`
	PingsToTarget int    `json:"pingsToTarget"`
	RelayedAcks   int    `json:"relayedAcks"`
	RelayedSeqOk  bool   `json:"relayedSeqOk"`
	Nacks         int    `json:"nacks"`
	NackSeqOk     bool   `json:"nackSeqOk"`
	Note          string `json:"note"`
	// probed role
	RespAcks  int    `json:"respAcks"`
	RespSeqOk bool   `json:"respSeqOk"`
	RespTo    string `json:"respTo"` // source | sender | stream | nobody | several
}

const (
	vPTabs = 4
	vPIabs = 20
)

// vRealTime maps an abstract instant of the model to a real offset from the probe start
func vRealTime(t int, pt, deadline time.Duration) time.Duration {
	switch {
	case t <= vPTabs:
		return time.Duration(t) * pt / vPTabs
	case t <= vPIabs:
		return pt + time.Duration(t-vPTabs)*(deadline-pt)/(vPIabs-vPTabs)
	default:
		return deadline + time.Duration(t-vPIabs)*50*time.Millisecond
	}
}

func vProbeConf(name string, tr *vSimTransport) *Config {
	c := DefaultLocalConfig() // ProbeTimeout 200ms, ProbeInterval 1s
	c.Name = name
	c.BindPort, c.AdvertisePort = 7946, 7946
	c.Logger = log.New(io.Discard, "", 0)
	if os.Getenv("VERIF_SIMLOG") != "" {
		c.Logger = log.New(os.Stderr, name+" ", 0)
	}
	c.EnableCompression = false
	c.Transport = tr
	return c
}

// strip the optional checksum header and return (type, body)
func vPeel(buf []byte) (messageType, []byte) {
	if len(buf) >= 5 && messageType(buf[0]) == hasCrcMsg {
		buf = buf[5:]
	}
	if len(buf) == 0 {
		return 255, nil
	}
	t := messageType(buf[0])
	if t == compoundMsg {
		if _, parts, err := decodeCompoundMessage(buf[1:]); err == nil && len(parts) > 0 && len(parts[0]) > 0 {
			return messageType(parts[0][0]), parts[0][1:]
		}
	}
	return t, buf[1:]
}

func vSendRaw(tr *vSimTransport, to *vSimTransport, t messageType, msg any) {
	b, err := encode(t, msg, false)
	if err != nil {
		return
	}
	_, _ = tr.WriteToAddress(b.Bytes(), Address{Addr: to.addr(), Name: to.name})
}

func vRunProbe(t *testing.T, s *vSink, id int, sc vProbeScen) (l vProbeLine) {
	l.Ev, l.Case, l.Kind, l.S = "ProbeCase", id, "probe", sc
	nw := vNewNet(int64(id))
	ipP := net.IPv4(10, 0, 0, 1).To4()
	trP := nw.attach("P", ipP, 7946)
	conf := vProbeConf("P", trP)
	// one more than the number of scripted relays: with few members the peer selection is then
	// the exhaustive shuffle, so every relay of the scenario is really asked
	conf.IndirectChecks = len(sc.Relays)
	if len(sc.Relays) > 0 {
		conf.IndirectChecks++
	}
	conf.DisableTcpPings = sc.Tcp == "off"
	P, err := newMemberlist(conf)
	if err != nil {
		t.Fatal(err)
	}
	if err := P.setAlive(); err != nil {
		t.Fatal(err)
	}
	n := s.register(P, vCfg{Mult: conf.SuspicionMult, MaxMult: conf.SuspicionMaxTimeoutMult, Interval: 1000}, nil, "", nil)
	n.created = true
	pt := conf.ProbeTimeout
	deadline := conf.ProbeInterval * time.Duration(sc.Score0+1)
	var start time.Time
	var mu sync.Mutex
	stop := make(chan struct{})
	at := func(abs int) time.Duration { return vRealTime(abs, pt, deadline) }
	after := func(d time.Duration, f func()) {
		wait := time.Until(start.Add(d))
		if wait <= 0 {
			f()
			return
		}
		time.AfterFunc(wait, f)
	}

	// the target
	trT := nw.attach("T", net.IPv4(10, 0, 0, 2).To4(), 7946)
	go func() {
		for {
			select {
			case p := <-trT.packetCh:
				typ, body := vPeel(p.Buf)
				if typ != pingMsg {
					continue
				}
				var pg ping
				if err := decode(body, &pg); err != nil {
					continue
				}
				seq := pg.SeqNo
				if sc.Direct >= 0 {
					after(at(sc.Direct), func() { vSendRaw(trT, trP, ackRespMsg, &ackResp{SeqNo: seq}) })
					if sc.DupAck {
						after(at(sc.Direct)+time.Millisecond, func() { vSendRaw(trT, trP, ackRespMsg, &ackResp{SeqNo: seq}) })
					}
				}
				if sc.ForeignAck >= 0 {
					after(at(sc.ForeignAck), func() { vSendRaw(trT, trP, ackRespMsg, &ackResp{SeqNo: seq + 1000}) })
				}
				if sc.ForeignNack >= 0 {
					after(at(sc.ForeignNack), func() { vSendRaw(trT, trP, nackRespMsg, &nackResp{SeqNo: seq + 1000}) })
				}
			case conn := <-trT.streamCh:
				go func(conn net.Conn) {
					defer conn.Close()
					if sc.Tcp != "ok" && sc.Tcp != "late" {
						return
					}
					if sc.Tcp == "late" {
						// answer only after the probe's deadline has passed
						time.Sleep(time.Until(start.Add(deadline + 150*time.Millisecond)))
					}
					_ = conn.SetDeadline(time.Now().Add(20 * time.Second))
					buf := make([]byte, 4096)
					k, err := conn.Read(buf)
					if err != nil || k < 2 || messageType(buf[0]) != pingMsg {
						return
					}
					var pg ping
					if err := decode(buf[1:k], &pg); err != nil {
						return
					}
					out, _ := encode(ackRespMsg, &ackResp{SeqNo: pg.SeqNo}, false)
					_, _ = conn.Write(out.Bytes())
				}(conn)
			case <-stop:
				return
			}
		}
	}()
	P.aliveNode(&alive{Incarnation: 1, Node: "T", Addr: trT.ip, Port: 7946, Vsn: []uint8{1, 5, 2, 0, 0, 0}}, nil, false)

	// indirect probers
	for i, rb := range sc.Relays {
		i, rb := i, rb
		name := fmt.Sprintf("R%d", i+1)
		trR := nw.attach(name, net.IPv4(10, 0, 0, byte(3+i)).To4(), 7946)
		pmax := uint8(3)
		if rb.Cap {
			pmax = 5
		}
		P.aliveNode(&alive{Incarnation: 1, Node: name, Addr: trR.ip, Port: 7946, Vsn: []uint8{1, pmax, 2, 0, 0, 0}}, nil, false)
		go func() {
			for {
				select {
				case p := <-trR.packetCh:
					typ, body := vPeel(p.Buf)
					if typ != indirectPingMsg {
						continue
					}
					var ind indirectPingReq
					if err := decode(body, &ind); err != nil {
						continue
					}
					mu.Lock()
					l.AskedRelays++
					mu.Unlock()
					if rb.AckAt >= 0 {
						after(at(rb.AckAt), func() { vSendRaw(trR, trP, ackRespMsg, &ackResp{SeqNo: ind.SeqNo}) })
					}
					if rb.Nack {
						after(2*pt+10*time.Millisecond, func() { vSendRaw(trR, trP, nackRespMsg, &nackResp{SeqNo: ind.SeqNo}) })
						if sc.DupNack {
							after(2*pt+11*time.Millisecond, func() { vSendRaw(trR, trP, nackRespMsg, &nackResp{SeqNo: ind.SeqNo}) })
						}
					}
				case <-stop:
					return
				}
			}
		}()
	}
	if sc.Tcp == "fail" {
		// dial succeeds, the peer hangs up (handled above); nothing else to do
	}
	P.broadcasts.Reset()
	if sc.Score0 > 0 {
		P.awareness.ApplyDelta(sc.Score0)
	}
	if sc.SendErr {
		// a local send failure: the target's name is required but the transport is asked without one
		trP.failSends = true
	}
	nw.setFaults(vNetFaults{MinDelay: 100 * time.Microsecond})

	P.nodeLock.RLock()
	target := *P.nodeMap["T"]
	P.nodeLock.RUnlock()
	s.mu.Lock()
	s.collect, s.mem = true, nil
	s.mu.Unlock()
	start = time.Now()
	done := make(chan struct{})
	go func() {
		P.probeNode(&target)
		close(done)
	}()
	time.Sleep(deadline + 900*time.Millisecond)
	synctest.Wait()
	select {
	case <-done:
		l.Returned = true
	default:
	}
	l.TookMs = time.Since(start).Milliseconds()
	s.mu.Lock()
	for _, x := range s.mem {
		if x.Ev == "NodeOp" && x.Op == "suspect" && x.Claim.Node == "T" && x.Claim.From == "P" {
			l.Suspect = true
		}
		if x.Ev == "Health" {
			l.Delta += x.Health
		}
	}
	s.collect, s.mem = false, nil
	s.mu.Unlock()
	l.ScoreAfter = P.GetHealthScore()
	P.ackLock.Lock()
	l.Handlers = len(P.ackHandlers)
	P.ackLock.Unlock()
	close(stop)
	s.unregister(P)
	P.nodeLock.Lock()
	for _, tm := range P.nodeTimers {
		tm.timer.Stop()
	}
	P.nodeLock.Unlock()
	_ = P.Shutdown()
	return l
}

func vRunRelay(t *testing.T, s *vSink, id int, rs vRelayScen) (l vProbeLine) {
	l.Ev, l.Case, l.Kind, l.R = "ProbeCase", id, "relay", rs
	l.S.Relays = []vRelayBeh{}
	nw := vNewNet(int64(id))
	trR := nw.attach("R", net.IPv4(10, 0, 0, 1).To4(), 7946)
	conf := vProbeConf("R", trR)
	R, err := newMemberlist(conf)
	if err != nil {
		t.Fatal(err)
	}
	if err := R.setAlive(); err != nil {
		t.Fatal(err)
	}
	pt := conf.ProbeTimeout
	trT := nw.attach("T", net.IPv4(10, 0, 0, 2).To4(), 7946)
	trQ := nw.attach("Q", net.IPv4(10, 0, 0, 3).To4(), 7946)
	stop := make(chan struct{})
	var mu sync.Mutex
	const reqSeq = 77
	l.RelayedSeqOk, l.NackSeqOk = true, true
	start := time.Now()
	go func() {
		for {
			select {
			case p := <-trT.packetCh:
				typ, body := vPeel(p.Buf)
				if typ != pingMsg {
					continue
				}
				var pg ping
				if err := decode(body, &pg); err != nil {
					continue
				}
				mu.Lock()
				l.PingsToTarget++
				l.FreshSeq = pg.SeqNo != reqSeq && pg.SourceNode == "R"
				mu.Unlock()
				if rs.AckAt >= 0 {
					seq := pg.SeqNo
					if !rs.SeqOk {
						seq += 5
					}
					d := vRealTime(rs.AckAt, pt, conf.ProbeInterval)
					time.AfterFunc(time.Until(start.Add(d)), func() { vSendRaw(trT, trR, ackRespMsg, &ackResp{SeqNo: seq}) })
				}
			case p := <-trQ.packetCh:
				typ, body := vPeel(p.Buf)
				mu.Lock()
				switch typ {
				case ackRespMsg:
					var a ackResp
					if decode(body, &a) == nil {
						l.RelayedAcks++
						if a.SeqNo != reqSeq {
							l.RelayedSeqOk = false
						}
					}
				case nackRespMsg:
					var a nackResp
					if decode(body, &a) == nil {
						l.Nacks++
						if a.SeqNo != reqSeq {
							l.NackSeqOk = false
						}
					}
				}
				mu.Unlock()
			case <-stop:
				return
			}
		}
	}()
	nw.setFaults(vNetFaults{MinDelay: 100 * time.Microsecond})
	R.broadcasts.Reset()
	if rs.SendErr {
		trR.failTo = trT.addr()
	}
	ind := indirectPingReq{SeqNo: reqSeq, Target: trT.ip, Port: 7946, Node: "T", Nack: rs.WantNack,
		SourceAddr: trQ.ip, SourcePort: 7946, SourceNode: "Q"}
	vSendRaw(trQ, trR, indirectPingMsg, &ind)
	time.Sleep(3*pt + 100*time.Millisecond)
	synctest.Wait()
	R.ackLock.Lock()
	l.Handlers = len(R.ackHandlers)
	R.ackLock.Unlock()
	close(stop)
	_ = R.Shutdown()
	_ = s
	return l
}

// vRunResp: a ping (datagram or stream) arrives at a real node R from X; the ping may name R, another
// node or nobody, and may carry a source (S) to answer to.
func vRunResp(t *testing.T, s *vSink, id int, ps vRespScen) (l vProbeLine) {
	l.Ev, l.Case, l.Kind, l.P = "ProbeCase", id, "resp", ps
	l.S.Relays = []vRelayBeh{}
	l.RespSeqOk, l.RespTo = true, "nobody"
	nw := vNewNet(int64(id))
	trR := nw.attach("R", net.IPv4(10, 0, 0, 1).To4(), 7946)
	conf := vProbeConf("R", trR)
	R, err := newMemberlist(conf)
	if err != nil {
		t.Fatal(err)
	}
	if err := R.setAlive(); err != nil {
		t.Fatal(err)
	}
	trX := nw.attach("X", net.IPv4(10, 0, 0, 2).To4(), 7946)
	trS := nw.attach("S", net.IPv4(10, 0, 0, 3).To4(), 7946)
	nw.setFaults(vNetFaults{MinDelay: 100 * time.Microsecond})
	const seq = 4711
	pg := ping{SeqNo: seq}
	switch ps.Named {
	case "self":
		pg.Node = "R"
	case "other":
		pg.Node = "R-before-the-restart"
	}
	if ps.Src == "given" {
		pg.SourceAddr, pg.SourcePort, pg.SourceNode = trS.ip, 7946, "S"
	}
	note := func(to string, body []byte) {
		var a ackResp
		if decode(body, &a) != nil {
			return
		}
		l.RespAcks++
		if a.SeqNo != seq {
			l.RespSeqOk = false
		}
		if l.RespTo != "nobody" && l.RespTo != to {
			to = "several"
		}
		l.RespTo = to
	}
	if ps.Path == "udp" {
		vSendRaw(trX, trR, pingMsg, &pg)
		time.Sleep(300 * time.Millisecond)
		synctest.Wait()
		for _, c := range []struct {
			tr *vSimTransport
			to string
		}{{trS, "source"}, {trX, "sender"}} {
			for len(c.tr.packetCh) > 0 {
				p := <-c.tr.packetCh
				if typ, body := vPeel(p.Buf); typ == ackRespMsg {
					note(c.to, body)
				}
			}
		}
	} else {
		c1, c2 := net.Pipe()
		trR.streamCh <- c1
		b, _ := encode(pingMsg, &pg, false)
		go func() { _, _ = c2.Write(b.Bytes()) }()
		var got bytes.Buffer
		buf := make([]byte, 4096)
		for {
			_ = c2.SetReadDeadline(time.Now().Add(2 * time.Second))
			n, err := c2.Read(buf)
			got.Write(buf[:n])
			if err != nil {
				break
			}
		}
		_ = c2.Close()
		synctest.Wait()
		if typ, body := vPeel(got.Bytes()); typ == ackRespMsg {
			note("stream", body)
		}
		for _, tr := range []*vSimTransport{trS, trX} {
			for len(tr.packetCh) > 0 {
				p := <-tr.packetCh
				if typ, body := vPeel(p.Buf); typ == ackRespMsg {
					note("several", body)
				}
			}
		}
	}
	_ = R.Shutdown()
	_ = s
	return l
}

func TestVerifProbeScenarios(t *testing.T) {
	cases, trace := os.Getenv("VERIF_CASES"), os.Getenv("VERIF_TRACE")
	if cases == "" || trace == "" {
		t.Skip("VERIF_CASES / VERIF_TRACE not set")
	}
	shard, nshard := 0, 1
	if v := os.Getenv("VERIF_SHARD"); v != "" {
		fmt.Sscanf(v, "%d/%d", &shard, &nshard)
	}
	f, err := os.Open(cases)
	if err != nil {
		t.Fatal(err)
	}
	defer f.Close()
	out, err := os.Create(trace)
	if err != nil {
		t.Fatal(err)
	}
	defer out.Close()
	w := bufio.NewWriter(out)
	defer w.Flush()
	sc := bufio.NewScanner(f)
	sc.Buffer(make([]byte, 1<<20), 1<<24)
	var all []vProbeCase
	var ids []int
	idx := 0
	for sc.Scan() {
		idx++
		if (idx-1)%nshard != shard {
			continue
		}
		var c vProbeCase
		dec := json.NewDecoder(bytes.NewReader(sc.Bytes()))
		if err := dec.Decode(&c); err != nil {
			t.Fatalf("case %d: %v", idx, err)
		}
		all = append(all, c)
		ids = append(ids, idx)
	}
	const batch = 100
	for lo := 0; lo < len(all); lo += batch {
		hi := min(lo+batch, len(all))
		synctest.Test(t, func(t *testing.T) {
			s, err := vOpenSink("")
			if err != nil {
				t.Fatal(err)
			}
			for i := lo; i < hi; i++ {
				var l vProbeLine
				if all[i].Kind == "relay" {
					l = vRunRelay(t, s, ids[i], all[i].R)
				} else if all[i].Kind == "resp" {
					l = vRunResp(t, s, ids[i], all[i].P)
				} else {
					l = vRunProbe(t, s, ids[i], all[i].S)
				}
				if l.S.Relays == nil {
					l.S.Relays = []vRelayBeh{}
				}
				b, _ := json.Marshal(l)
				w.Write(b)
				w.WriteByte('\n')
			}
			_ = s.Close()
			time.Sleep(20 * time.Second)
			synctest.Wait()
		})
	}
}
