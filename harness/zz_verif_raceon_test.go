//go:build verif && race

package memberlist

const vRaceEnabled = true
