//go:build verif

package memberlist

// Packing cases (DESIGN.md §5 C11): a real node with a prepared broadcast queue
// assembles a packet (gossip tick, or a ping with piggybacked broadcasts); the
// tap measures every buffer handed to the transport, a real receiver unpacks
// it.  Recorded per case: the budget handed to the queue, what was handed out,
// the wire length of every frame, and which of the handed-out messages reached
// the receiver's handlers.  TLC (spec/TracePack.tla) judges.

import (
	"bufio"
	"bytes"
	"encoding/json"
	"fmt"
	"io"
	"log"
	"net"
	"os"
	"strings"
	"sync"
	"testing"
	"testing/synctest"
	"time"
)

type vPackCase struct {
	Path     string `json:"path"` // gossip | piggy
	Buf      int    `json:"buf"`
	LabelLen int    `json:"labelLen"`
	Enc      string `json:"enc"` // none | v0 | v1
	Vout     bool   `json:"vout"`
	Vin      bool   `json:"vin"` // the sender's own incoming verification (independent of what it seals)
	Crc      bool   `json:"crc"`
	Comp     bool   `json:"comp"`
	Member   []int  `json:"member"`   // metadata sizes of queued alive broadcasts
	User     []int  `json:"user"`     // sizes of queued user broadcasts
	FillUser bool   `json:"fillUser"` // add one user broadcast sized to fill the budget exactly
}

type vPackLine struct {
	Ev   string `json:"ev"`
	Case int    `json:"case"`
	vPackCase
	Limit      int    `json:"limit"`    // byte limit handed to the queue
	Overhead   int    `json:"overhead"` // per-message overhead handed to the queue
	PrimaryLen int    `json:"primaryLen"`
	Packed     []int  `json:"packed"` // lengths of the messages handed out (framed)
	Frames     []int  `json:"frames"` // wire length of every buffer given to the transport
	Lost       int    `json:"lost"`   // handed out but never seen by the receiver's handlers
	Extra      int    `json:"extra"`  // seen by the receiver but never handed out
	Got        int    `json:"got"`
	Note       string `json:"note"`
}

type vPackDelegate struct {
	mu    sync.Mutex
	queue [][]byte
	got   [][]byte
	fill  bool
}

func (d *vPackDelegate) NodeMeta(limit int) []byte     { return nil }
func (d *vPackDelegate) LocalState(join bool) []byte   { return nil }
func (d *vPackDelegate) MergeRemoteState([]byte, bool) {}
func (d *vPackDelegate) NotifyMsg(b []byte) {
	d.mu.Lock()
	d.got = append(d.got, append([]byte(nil), b...))
	d.mu.Unlock()
}
func (d *vPackDelegate) GetBroadcasts(overhead, limit int) [][]byte {
	d.mu.Lock()
	defer d.mu.Unlock()
	var out [][]byte
	used := 0
	rest := d.queue[:0:0]
	for _, m := range d.queue {
		if used+len(m)+overhead <= limit {
			out = append(out, m)
			used += len(m) + overhead
		} else {
			rest = append(rest, m)
		}
	}
	d.queue = rest
	if d.fill && limit-used-overhead >= 1 {
		// one more message that fills the remaining budget to the byte
		m := bytes.Repeat([]byte{'F'}, limit-used-overhead)
		copy(m, []byte(fmt.Sprintf("fill-%d|", len(m))))
		out = append(out, m)
		d.fill = false
	}
	return out
}

func vPackNode(t *testing.T, nw *vNet, name string, ip net.IP, c vPackCase, d *vPackDelegate, sender bool) *Memberlist {
	conf := DefaultLANConfig()
	conf.Name = name
	conf.BindPort, conf.AdvertisePort = 7946, 7946
	conf.Logger = log.New(io.Discard, "", 0)
	conf.UDPBufferSize = c.Buf
	conf.Label = strings.Repeat("L", c.LabelLen)
	conf.EnableCompression = c.Comp
	conf.GossipVerifyOutgoing = c.Vout
	conf.GossipVerifyIncoming = c.Vout // a sender that does not seal needs a receiver that accepts plaintext
	if sender {
		conf.GossipVerifyIncoming = c.Vin
	}
	conf.GossipNodes = 1
	// what is measured here is the packing: the receiver's own cap on queued messages (HandoffQueueDepth 1024, judged
	// by C13) must not drop part of a burst of 1500 tiny broadcasts
	conf.HandoffQueueDepth = 1 << 20
	if c.Enc != "none" {
		kr, _ := NewKeyring(nil, vWKeys["k1"])
		conf.Keyring = kr
		if c.Enc == "v0" {
			conf.ProtocolVersion = 1
		}
	}
	conf.Transport = nw.attach(name, ip, 7946)
	conf.Delegate = d
	m, err := newMemberlist(conf)
	if err != nil {
		t.Fatal(err)
	}
	if err := m.setAlive(); err != nil {
		t.Fatal(err)
	}
	return m
}

func vRunPack(t *testing.T, s *vSink, id int, c vPackCase) (l vPackLine) {
	l.Ev, l.Case, l.vPackCase = "PackCase", id, c
	l.Packed, l.Frames = []int{}, []int{}
	nw := vNewNet(int64(id))
	ipA, ipB := net.IPv4(10, 0, 0, 1).To4(), net.IPv4(10, 0, 0, 2).To4()
	dA, dB := &vPackDelegate{fill: c.FillUser}, &vPackDelegate{}
	A := vPackNode(t, nw, ipA.String(), ipA, c, dA, true)
	B := vPackNode(t, nw, ipB.String(), ipB, c, dB, false)
	nB := s.register(B, vCfg{Mult: 4, MaxMult: 6, Interval: 1000}, nil, "", nil)
	nB.created = true
	defer func() {
		s.unregister(B)
		_ = A.Shutdown()
		_ = B.Shutdown()
	}()
	pmax := uint8(4)
	if c.Crc {
		pmax = 5
	}
	A.aliveNode(&alive{Incarnation: 1, Node: B.config.Name, Addr: ipB, Port: 7946, Vsn: []uint8{1, pmax, 2, 0, 0, 0}}, nil, false)
	A.broadcasts.Reset()
	// queue content
	for i, sz := range c.Member {
		a := alive{Incarnation: 3, Node: fmt.Sprintf("x%d", i), Addr: net.IPv4(10, 1, byte(i/250), byte(i%250+1)).To4(), Port: 7946,
			Meta: bytes.Repeat([]byte{'m'}, sz), Vsn: []uint8{1, 5, 2, 0, 0, 0}}
		buf, err := encode(aliveMsg, &a, false)
		if err != nil {
			t.Fatal(err)
		}
		A.broadcasts.QueueBroadcast(&memberlistBroadcast{node: a.Node, msg: buf.Bytes()})
	}
	for i, sz := range c.User {
		m := bytes.Repeat([]byte{'u'}, sz)
		copy(m, []byte(fmt.Sprintf("%d|", i)))
		dA.queue = append(dA.queue, m)
	}
	var mu sync.Mutex
	var packed [][]byte
	s.onPacked = func(m *Memberlist, overhead, limit int, msgs [][]byte) {
		if m != A {
			return
		}
		mu.Lock()
		l.Limit, l.Overhead = limit, overhead
		for _, x := range msgs {
			packed = append(packed, append([]byte(nil), x...))
		}
		mu.Unlock()
	}
	nw.mu.Lock()
	nw.tapPacket = func(from, to *vSimTransport, buf []byte, fate string) {
		if from.name == A.config.Name {
			mu.Lock()
			l.Frames = append(l.Frames, len(buf))
			mu.Unlock()
		}
	}
	nw.mu.Unlock()
	s.mu.Lock()
	s.collect, s.mem = true, nil
	s.mu.Unlock()

	if c.Path == "gossip" {
		A.gossip()
	} else {
		p := ping{SeqNo: 9, Node: B.config.Name, SourceAddr: ipA, SourcePort: 7946, SourceNode: A.config.Name}
		out, _ := encode(pingMsg, &p, false)
		l.PrimaryLen = out.Len()
		_ = A.sendMsg(Address{Addr: net.JoinHostPort(ipB.String(), "7946"), Name: B.config.Name}, out.Bytes())
	}
	time.Sleep(100 * time.Millisecond)
	synctest.Wait()
	s.onPacked = nil

	// what the receiver's handlers saw
	seen := map[string]int{}
	dB.mu.Lock()
	for _, g := range dB.got {
		seen["u:"+string(g)]++
	}
	dB.mu.Unlock()
	s.mu.Lock()
	for _, x := range s.mem {
		if x.Ev == "NodeOp" && x.Op == "alive" && strings.HasPrefix(x.Claim.Node, "x") {
			seen["m:"+x.Claim.Node]++
		}
	}
	s.collect, s.mem = false, nil
	s.mu.Unlock()
	for _, k := range seen {
		l.Got += k
	}
	mu.Lock()
	for _, pm := range packed {
		l.Packed = append(l.Packed, len(pm))
		var key string
		if len(pm) > 0 && messageType(pm[0]) == userMsg {
			key = "u:" + string(pm[1:])
		} else {
			var a alive
			if len(pm) > 1 && decode(pm[1:], &a) == nil {
				key = "m:" + a.Node
			}
		}
		if seen[key] > 0 {
			seen[key]--
		} else {
			l.Lost++
		}
	}
	mu.Unlock()
	for _, k := range seen {
		l.Extra += k
	}
	return l
}

func TestVerifPacking(t *testing.T) {
	cases, trace := os.Getenv("VERIF_CASES"), os.Getenv("VERIF_TRACE")
	if cases == "" || trace == "" {
		t.Skip("VERIF_CASES / VERIF_TRACE not set")
	}
	shard, nshard := 0, 1
	if v := os.Getenv("VERIF_SHARD"); v != "" {
		fmt.Sscanf(v, "%d/%d", &shard, &nshard)
	}
	f, err := os.Open(cases)
	if err != nil {
		t.Fatal(err)
	}
	defer f.Close()
	out, err := os.Create(trace)
	if err != nil {
		t.Fatal(err)
	}
	defer out.Close()
	w := bufio.NewWriter(out)
	defer w.Flush()
	sc := bufio.NewScanner(f)
	sc.Buffer(make([]byte, 1<<20), 1<<24)
	var all []vPackCase
	var ids []int
	idx := 0
	for sc.Scan() {
		idx++
		if (idx-1)%nshard != shard {
			continue
		}
		var c vPackCase
		if err := json.Unmarshal(sc.Bytes(), &c); err != nil {
			t.Fatalf("case %d: %v", idx, err)
		}
		all = append(all, c)
		ids = append(ids, idx)
	}
	const batch = 50
	for lo := 0; lo < len(all); lo += batch {
		hi := min(lo+batch, len(all))
		synctest.Test(t, func(t *testing.T) {
			s, err := vOpenSink("")
			if err != nil {
				t.Fatal(err)
			}
			for i := lo; i < hi; i++ {
				l := vRunPack(t, s, ids[i], all[i])
				b, _ := json.Marshal(l)
				w.Write(b)
				w.WriteByte('\n')
			}
			_ = s.Close()
			time.Sleep(15 * time.Second)
			synctest.Wait()
		})
	}
}
