//go:build verif

package memberlist

// Replay of call sequences on the real Keyring and of key-rotation interleavings on
// real keyrings with real encryptPayload / decryptPayload exchanges (DESIGN.md §5 C17).
// Sequences come from TLC (spec/Keyring.tla: every sequence up to a depth over a small
// key alphabet; spec/KeyRotation.tla: every interleaving of the per-node rotation steps;
// VERIF_PATHS) and from a seeded random driver with more keys and more invalid lengths.
// After EVERY call one line is recorded: the result (ok / error / panic), the ring as
// GetKeys shows it, the primary as GetPrimaryKey shows it, and for every key list any
// earlier GetKeys call of the sequence returned whether it still has the content it had
// when it was returned.  TLC (spec/TraceKeyring.tla) judges the recorded trace.
// Every line also carries the ring the call started from (what the previous reading
// showed), so a line can be judged on its own.  The TLC sequences share most of their
// prefixes; with VERIF_DEDUP=1 a call is executed every time but recorded only when the
// same call history has not already produced the identical line in this process.

import (
	"bufio"
	"bytes"
	"encoding/hex"
	"encoding/json"
	"fmt"
	"hash/fnv"
	"math/rand"
	"os"
	"strconv"
	"testing"
	"time"
)

type vKROp struct {
	Op   string `json:"op"` // A(dd) U(se) R(emove) G(etKeys) P(rimary)
	Key  string `json:"key"`
	Node string `json:"node"`
}

type vKRInit struct {
	Node    string   `json:"node"`
	Keys    []string `json:"keys"`
	Primary string   `json:"primary"`
}

type vKRPath struct {
	Kind  string    `json:"kind"` // "ring" | "rot"
	Init  vKRInit   `json:"init"`
	Ops   []vKROp   `json:"ops"`
	Start []vKRInit `json:"start"`
	Steps []vKROp   `json:"steps"`
}

type vKRLine struct {
	Ev    string   `json:"ev"`
	Case  int      `json:"case"`
	I     int      `json:"i"`
	Node  string   `json:"node"`
	Op    string   `json:"op"` // N(ew) A U R G P
	Key   string   `json:"key"`
	Klen  int      `json:"klen"`
	Nkeys []string `json:"nkeys"` // NewKeyring: the key list
	Nlens []int    `json:"nlens"`
	Pre   []string `json:"pre"`   // the ring before the call (previous reading), as key ids
	Plens []int    `json:"plens"` // byte lengths of those keys
	Res   string   `json:"res"`   // ok | error | panic:<msg>
	Pan   bool     `json:"pan"`
	Ring  []string `json:"ring"` // GetKeys after the call, as key ids
	Lens  []int    `json:"lens"` // byte lengths of those keys
	Prim  string   `json:"prim"` // GetPrimaryKey after the call ("" = nil)
	Held  []bool   `json:"held"` // per key list returned earlier: still what it was
	Nx    int      `json:"nx"`   // exchanges performed after the call (rotation)
	Xfail []string `json:"xfail"`
}

// ---- concretisation: abstract key ids -> fixed, pairwise distinct byte strings

var vKRLens = map[string]int{
	"k1": 16, "k2": 24, "k3": 32, "kx": 17, // alphabet of the TLC sequences
	"v16": 16, "w16": 16, "v24": 24, "v32": 32, // random driver: valid
	"i0": 0, "i15": 15, "i17": 17, "i33": 33, // random driver: invalid lengths
}

var vKRBytes = map[string][]byte{}
var vKRIds = map[string]string{}

func vKRFill(tag byte, n int) []byte {
	b := make([]byte, n)
	for j := range b {
		b[j] = tag*37 + byte(j)*11 + 5
	}
	return b
}

func vKRSetup(t *testing.T) {
	if len(vKRBytes) > 0 {
		return
	}
	tag := byte(1)
	for _, id := range []string{"k1", "k2", "k3", "kx", "v16", "w16", "v24", "v32", "i0"} {
		vKRBytes[id] = vKRFill(tag, vKRLens[id])
		tag++
	}
	// invalid keys that share a prefix with valid ones
	vKRBytes["i15"] = append([]byte{}, vKRBytes["v16"][:15]...)
	vKRBytes["i17"] = append(append([]byte{}, vKRBytes["v16"]...), 0x5a)
	vKRBytes["i33"] = append(append([]byte{}, vKRBytes["v32"]...), 0x5a)
	for id, b := range vKRBytes {
		if len(b) != vKRLens[id] {
			t.Fatalf("key table: %s has %d bytes", id, len(b))
		}
		if other, dup := vKRIds[string(b)]; dup {
			t.Fatalf("key table: %s and %s coincide", id, other)
		}
		vKRIds[string(b)] = id
	}
}

// a fresh copy for every call: the harness never shares a buffer with the ring
func vKRKey(t *testing.T, id string) []byte {
	if id == "" {
		return nil
	}
	b, ok := vKRBytes[id]
	if !ok {
		t.Fatalf("unknown key id %q", id)
	}
	return append([]byte{}, b...)
}

func vKRId(b []byte) string {
	if len(b) == 0 {
		return ""
	}
	if id, ok := vKRIds[string(b)]; ok {
		return id
	}
	return "?" + hex.EncodeToString(b)
}

// ---- one keyring under test

type vKRHeld struct {
	s    [][]byte // the slice exactly as GetKeys returned it
	copy [][]byte // its content at that moment
}

type vKRRun struct {
	t        *testing.T
	kr       *Keyring
	held     []vKRHeld
	lastRing []string // the previous reading
	lastLens []int
}

func (r *vKRRun) hold(s [][]byte) {
	c := make([][]byte, len(s))
	for i := range s {
		c[i] = append([]byte{}, s[i]...)
	}
	r.held = append(r.held, vKRHeld{s: s, copy: c})
}

func (h *vKRHeld) intact() bool {
	if len(h.s) != len(h.copy) {
		return false
	}
	for i := range h.s {
		if !bytes.Equal(h.s[i], h.copy[i]) {
			return false
		}
	}
	return true
}

func vKRPanicText(p interface{}) string {
	s := fmt.Sprint(p)
	if len(s) > 120 {
		s = s[:120]
	}
	return "panic:" + s
}

// observe reads the ring and the primary through the public API and re-reads every key
// list handed out so far
func (r *vKRRun) observe(l *vKRLine) {
	defer func() {
		if p := recover(); p != nil {
			l.Pan = true
			l.Res = vKRPanicText(p) + " (while reading the ring after " + l.Res + ")"
		}
	}()
	if r.kr != nil {
		ring := r.kr.GetKeys()
		for _, k := range ring {
			l.Ring = append(l.Ring, vKRId(k))
			l.Lens = append(l.Lens, len(k))
		}
		l.Prim = vKRId(r.kr.GetPrimaryKey())
		for i := range r.held {
			l.Held = append(l.Held, r.held[i].intact())
		}
		r.hold(ring) // the reading itself is a key list returned to a caller
		l.Held = append(l.Held, true)
		r.lastRing, r.lastLens = l.Ring, l.Lens
	}
}

// altered: some key list handed out earlier no longer has the content it was returned with
func (l *vKRLine) altered() bool {
	for _, ok := range l.Held {
		if !ok {
			return true
		}
	}
	return false
}

func (r *vKRRun) apply(op string, key string, nkeys []string) (l vKRLine) {
	l.Ev, l.Op, l.Key = "KR", op, key
	l.Nkeys, l.Nlens, l.Ring, l.Lens, l.Held, l.Xfail = []string{}, []int{}, []string{}, []int{}, []bool{}, []string{}
	l.Pre, l.Plens = append([]string{}, r.lastRing...), append([]int{}, r.lastLens...)
	kb := vKRKey(r.t, key)
	l.Klen = len(kb)
	func() {
		defer func() {
			if p := recover(); p != nil {
				l.Pan = true
				l.Res = vKRPanicText(p)
			}
		}()
		var err error
		switch op {
		case "N":
			var ks [][]byte
			for _, id := range nkeys {
				b := vKRKey(r.t, id)
				ks = append(ks, b)
				l.Nkeys = append(l.Nkeys, id)
				l.Nlens = append(l.Nlens, len(b))
			}
			var kr *Keyring
			kr, err = NewKeyring(ks, kb)
			if err == nil {
				if kr == nil {
					panic("NewKeyring returned neither a keyring nor an error")
				}
				r.kr = kr
			}
		case "A":
			err = r.kr.AddKey(kb)
		case "U":
			err = r.kr.UseKey(kb)
		case "R":
			err = r.kr.RemoveKey(kb)
		case "G":
			r.hold(r.kr.GetKeys())
		case "P":
			r.kr.GetPrimaryKey()
		default:
			r.t.Fatalf("unknown operation %q", op)
		}
		if err != nil {
			l.Res = "error"
		} else {
			l.Res = "ok"
		}
	}()
	if !l.Pan {
		r.observe(&l)
		return l
	}
	// after a panic the lock may still be held: read with a time limit
	done := make(chan struct{})
	go func() {
		defer close(done)
		r.observe(&l)
	}()
	select {
	case <-done:
	case <-time.After(5 * time.Second):
		return vKRLine{Ev: "KR", Op: op, Key: key, Klen: l.Klen, Nkeys: l.Nkeys, Nlens: l.Nlens, Pre: l.Pre, Plens: l.Plens,
			Res: l.Res + " (ring locked afterwards)", Pan: true, Ring: []string{}, Lens: []int{}, Held: []bool{}, Xfail: []string{}}
	}
	return l
}

func vKRWrite(w *bufio.Writer, l vKRLine) {
	b, _ := json.Marshal(l)
	w.Write(b)
	w.WriteByte('\n')
}

func vKRShard() (int, int) {
	shard, nshard := 0, 1
	if v := os.Getenv("VERIF_SHARD"); v != "" {
		fmt.Sscanf(v, "%d/%d", &shard, &nshard)
	}
	if nshard < 1 {
		nshard = 1
	}
	return shard, nshard
}

// broken: the ring itself violates the keyring invariant (duplicate, invalid length, primary
// not first); like after a panic, nothing later could be attributed to a single call
func (l *vKRLine) broken() bool {
	seen := map[string]bool{}
	for i, id := range l.Ring {
		if seen[id] || (l.Lens[i] != 16 && l.Lens[i] != 24 && l.Lens[i] != 32) {
			return true
		}
		seen[id] = true
	}
	if len(l.Ring) == 0 {
		return l.Prim != ""
	}
	return l.Prim != l.Ring[0]
}

func (l *vKRLine) stop() bool { return l.Pan || l.altered() || l.broken() }

// vKRPaths calls f for every path of the wanted kind that belongs to this shard; a shard
// is a contiguous block of the path file (neighbouring TLC sequences share their prefix)
func vKRPaths(t *testing.T, kind string, f func(idx int, p *vKRPath, w *bufio.Writer)) {
	paths, trace := os.Getenv("VERIF_PATHS"), os.Getenv("VERIF_TRACE")
	if paths == "" || trace == "" {
		t.Skip("VERIF_PATHS / VERIF_TRACE not set")
	}
	vKRSetup(t)
	shard, nshard := vKRShard()
	scan := func(each func(idx int, line []byte)) {
		in, err := os.Open(paths)
		if err != nil {
			t.Fatal(err)
		}
		defer in.Close()
		sc := bufio.NewScanner(in)
		sc.Buffer(make([]byte, 1<<20), 1<<24)
		idx := 0
		for sc.Scan() {
			idx++
			each(idx, sc.Bytes())
		}
		if err := sc.Err(); err != nil {
			t.Fatal(err)
		}
	}
	total := 0
	scan(func(int, []byte) { total++ })
	from, to := shard*total/nshard, (shard+1)*total/nshard // 0-based, [from, to)
	out, err := os.Create(trace)
	if err != nil {
		t.Fatal(err)
	}
	w := bufio.NewWriterSize(out, 1<<20)
	done := 0
	scan(func(idx int, line []byte) {
		if idx-1 < from || idx-1 >= to {
			return
		}
		var p vKRPath
		if err := json.Unmarshal(line, &p); err != nil {
			t.Fatalf("path %d: %v", idx, err)
		}
		if p.Kind == "" {
			p.Kind = "ring"
		}
		if p.Kind != kind {
			return
		}
		f(idx, &p, w)
		done++
	})
	w.Flush()
	out.Close()
	if p := os.Getenv("VERIF_STATS"); p != "" {
		os.WriteFile(p, []byte(fmt.Sprintf(`{"paths":%d}`, done)), 0o644)
	}
}

// vKRSeen remembers, per call history, what the last call of that history recorded
type vKRSeen map[string]uint64

// record writes the line unless the same call history already produced the identical line
func (seen vKRSeen) record(w *bufio.Writer, hist string, l vKRLine) {
	if seen != nil {
		c, i := l.Case, l.I
		l.Case, l.I = 0, 0
		b, _ := json.Marshal(l)
		h := fnv.New64a()
		h.Write(b)
		l.Case, l.I = c, i
		if old, ok := seen[hist]; ok && old == h.Sum64() {
			return
		}
		seen[hist] = h.Sum64()
	}
	vKRWrite(w, l)
}

// runs one call sequence; stops after a failed NewKeyring (there is no ring), after a
// panic (the object is in an unknown state), after a call that altered a key list handed
// out earlier and after a call that left the ring itself broken (nothing later could be
// attributed to a single call)
func vKRSequence(t *testing.T, w *bufio.Writer, c int, init vKRInit, ops []vKROp, seen vKRSeen) {
	r := &vKRRun{t: t}
	l := r.apply("N", init.Primary, init.Keys)
	l.Case, l.I = c, 1
	hist := fmt.Sprintf("N%q/%q", init.Keys, init.Primary)
	seen.record(w, hist, l)
	if r.kr == nil || l.stop() {
		return
	}
	for i, op := range ops {
		l := r.apply(op.Op, op.Key, nil)
		l.Case, l.I = c, i+2
		hist += ";" + op.Op + op.Key
		seen.record(w, hist, l)
		if l.stop() {
			return
		}
	}
}

func TestVerifKeyringReplay(t *testing.T) {
	var seen vKRSeen
	if os.Getenv("VERIF_DEDUP") == "1" {
		seen = vKRSeen{}
	}
	vKRPaths(t, "ring", func(idx int, p *vKRPath, w *bufio.Writer) {
		vKRSequence(t, w, idx, p.Init, p.Ops, seen)
	})
}

// TestVerifKeyringRandom: seeded random call sequences, 6 keys per sequence drawn from
// 4 valid and 4 invalid-length ones (code -> specification direction).
func TestVerifKeyringRandom(t *testing.T) {
	trace := os.Getenv("VERIF_TRACE")
	if trace == "" {
		t.Skip("VERIF_TRACE not set")
	}
	vKRSetup(t)
	seed, _ := strconv.ParseInt(os.Getenv("VERIF_SEED"), 10, 64)
	count, _ := strconv.Atoi(os.Getenv("VERIF_COUNT"))
	if count == 0 {
		count = 2000
	}
	shard, nshard := vKRShard()
	rng := rand.New(rand.NewSource(seed*1000003 + int64(shard)))
	out, err := os.Create(trace)
	if err != nil {
		t.Fatal(err)
	}
	w := bufio.NewWriterSize(out, 1<<20)
	valid := []string{"v16", "w16", "v24", "v32"}
	invalid := []string{"i0", "i15", "i17", "i33"}
	for c := 1; c <= count; c++ {
		// 6 keys: 3 or 4 valid, the rest invalid
		nv := 3 + rng.Intn(2)
		pool := []string{}
		for _, j := range rng.Perm(len(valid))[:nv] {
			pool = append(pool, valid[j])
		}
		for _, j := range rng.Perm(len(invalid))[:6-nv] {
			pool = append(pool, invalid[j])
		}
		pick := func() string { return pool[rng.Intn(len(pool))] }
		var init vKRInit
		switch x := rng.Intn(100); {
		case x < 30: // NewKeyring(nil, nil)
		case x < 38: // keys without a primary
			init.Keys = []string{pick()}
		default:
			init.Primary = pick()
			if rng.Intn(100) < 80 {
				init.Primary = pool[rng.Intn(nv)] // mostly a valid primary
			}
			for n := rng.Intn(4); n > 0; n-- {
				if rng.Intn(100) < 85 {
					init.Keys = append(init.Keys, pool[rng.Intn(nv)])
				} else {
					init.Keys = append(init.Keys, pick())
				}
			}
		}
		nops := 4 + rng.Intn(26) // 5..30 calls including NewKeyring
		ops := make([]vKROp, 0, nops)
		for i := 0; i < nops; i++ {
			var op vKROp
			switch x := rng.Intn(100); {
			case x < 30:
				op.Op, op.Key = "A", pick()
			case x < 50:
				op.Op, op.Key = "U", pick()
			case x < 75:
				op.Op, op.Key = "R", pick()
			case x < 90:
				op.Op = "G"
			default:
				op.Op = "P"
			}
			ops = append(ops, op)
		}
		vKRSequence(t, w, c*nshard+shard, init, ops, nil)
	}
	w.Flush()
	out.Close()
}

// ---- rotation: one keyring per node, a real exchange for every ordered pair after every step

func vKRExchange(s, r *vKRRun, vsn encryptionVersion, msg, aad []byte) (ok bool) {
	defer func() {
		if p := recover(); p != nil {
			ok = false
		}
	}()
	prim := s.kr.GetPrimaryKey()
	if prim == nil {
		return false
	}
	var buf bytes.Buffer
	if err := encryptPayload(vsn, prim, msg, aad, &buf); err != nil {
		return false
	}
	plain, err := decryptPayload(r.kr.GetKeys(), buf.Bytes(), aad)
	return err == nil && bytes.Equal(plain, msg)
}

func TestVerifKeyRotationReplay(t *testing.T) {
	vKRPaths(t, "rot", func(idx int, p *vKRPath, w *bufio.Writer) {
		order := []string{}
		nodes := map[string]*vKRRun{}
		msg := []byte(fmt.Sprintf("rotation case %d: ping", idx))
		aad := []byte("label")
		exchange := func(l *vKRLine) {
			for _, n := range order {
				if nodes[n].kr == nil {
					return
				}
			}
			if len(order) < len(p.Start) {
				return
			}
			for _, s := range order {
				for _, r := range order {
					for vsn := minEncryptionVersion; vsn <= maxEncryptionVersion; vsn++ {
						l.Nx++
						if !vKRExchange(nodes[s], nodes[r], vsn, msg, aad) {
							l.Xfail = append(l.Xfail, fmt.Sprintf("%s>%s/v%d", s, r, vsn))
						}
					}
				}
			}
		}
		i := 0
		for _, st := range p.Start {
			r := &vKRRun{t: t}
			nodes[st.Node] = r
			order = append(order, st.Node)
			l := r.apply("N", st.Primary, st.Keys)
			i++
			l.Case, l.I, l.Node = idx, i, st.Node
			exchange(&l)
			vKRWrite(w, l)
			if r.kr == nil || l.stop() {
				return
			}
		}
		for _, op := range p.Steps {
			r := nodes[op.Node]
			if r == nil {
				t.Fatalf("path %d: step on unknown node %q", idx, op.Node)
			}
			l := r.apply(op.Op, op.Key, nil)
			i++
			l.Case, l.I, l.Node = idx, i, op.Node
			exchange(&l)
			vKRWrite(w, l)
			if l.stop() {
				return
			}
		}
	})
}
