//go:build verif

// Key rotation on a live node (spec/WireRot.tla -> spec/TraceWireRot.tla).
//
// Every step sequence TLC prints from WireRot (AddKey / UseKey / RemoveKey on the node's keyring,
// interleaved with inbound traffic sealed under some key or not at all, and with the node's own
// outbound traffic) is executed on a real Memberlist node B over the simulated network:
//   - keyring calls go to B's real Keyring (the one its Config points to);
//   - inbound traffic is produced by a second real node A whose keyring holds exactly the key of the
//     step (no keyring for plaintext), captured, and handed to B's transport;
//   - B's outbound traffic (a user message, the ack of a ping, its push/pull reply) is captured at
//     the transport and opened with the standard library's AES-GCM under every candidate key.
//
// One line per step with the ring before and after as B's real keyring shows it.
package memberlist

import (
	"bufio"
	"bytes"
	"crypto/rand"
	"encoding/json"
	"fmt"
	"net"
	"os"
	"sync"
	"testing"
	"testing/synctest"
	"time"
)

type vROp struct {
	Op   string `json:"op"`
	Key  string `json:"key"`
	Klen int    `json:"klen"`
	Path string `json:"path"`
	Msg  string `json:"msg"`
}

type vRCase struct {
	Start []string `json:"start"`
	Lens  []int    `json:"lens"`
	Vin   bool     `json:"vin"`
	Vout  bool     `json:"vout"`
	Ops   []vROp   `json:"ops"`
}

type vRLine struct {
	Ev      string   `json:"ev"`
	Case    int      `json:"case"`
	I       int      `json:"i"`
	Op      string   `json:"op"`
	Key     string   `json:"key"`
	Klen    int      `json:"klen"`
	Path    string   `json:"path"`
	Msg     string   `json:"msg"`
	Pre     []string `json:"pre"`
	Plens   []int    `json:"plens"`
	Ring    []string `json:"ring"`
	Lens    []int    `json:"lens"`
	Res     string   `json:"res"`
	Acted   bool     `json:"acted"`
	Frames  int      `json:"frames"`  // buffers B handed to its transport / wrote to the stream in this step
	Seal    string   `json:"seal"`    // id of the key all of them open under | plain | mixed | unknown | none
	SealLen int      `json:"sealLen"` // its length
	Vin     bool     `json:"vin"`
	Vout    bool     `json:"vout"`
}

func vRKeyID(k []byte) string {
	for id, v := range vWKeys {
		if bytes.Equal(v, k) {
			return id
		}
	}
	return "unknown"
}

func vRRing(kr *Keyring) (ids []string, lens []int) {
	ids, lens = []string{}, []int{}
	if kr == nil {
		return
	}
	for _, k := range kr.GetKeys() {
		ids = append(ids, vRKeyID(k))
		lens = append(lens, len(k))
	}
	return
}

// vRSeal: under which key a buffer emitted by the node opens
func vRSeal(buf []byte, path string) string {
	_, body, ok := vSplitLabel(buf)
	if !ok {
		return "unknown"
	}
	for _, id := range []string{"k1", "k2", "k3"} {
		if path == "packet" {
			if _, _, ok := vOpenPacket(body, vWKeys[id], ""); ok {
				return id
			}
		} else if _, ok := vOpenStream(body, vWKeys[id], ""); ok {
			return id
		}
	}
	if len(body) > 0 && messageType(body[0]) != encryptMsg && path == "stream" {
		return "plain"
	}
	if path == "packet" && len(body) > 0 && body[0] > 1 {
		return "plain" // a message type byte, not an encryption version
	}
	return "unknown"
}

type vRPair struct {
	nw     *vNet
	A, B   *vWNode
	rec    *vSimTransport
	mu     sync.Mutex
	fromA  [][]byte
	fromB  [][]byte
	seq    uint32
	ipA    net.IP
	ipB    net.IP
	nodeB  *Node
	nodeA  *Node
	addrB  Address
	addrR  Address
	closed bool
}

func vRNewPair(t *testing.T, vin, vout bool, id int64) *vRPair {
	p := &vRPair{nw: vNewNet(id)}
	p.ipA, p.ipB = net.IPv4(10, 0, 0, 1).To4(), net.IPv4(10, 0, 0, 2).To4()
	p.A = vWNewNode(t, p.nw, p.ipA.String(), p.ipA, vWCfg{Vin: true, Vout: true, Comp: true})
	p.B = vWNewNode(t, p.nw, p.ipB.String(), p.ipB, vWCfg{Vin: vin, Vout: vout, Comp: true})
	p.rec = p.nw.attach("recorder", net.IPv4(10, 0, 0, 9).To4(), 7946)
	p.nodeB = &Node{Name: p.B.m.config.Name, Addr: p.ipB, Port: 7946, PMax: 5, PMin: 1, PCur: 2}
	p.nodeA = &Node{Name: p.A.m.config.Name, Addr: p.ipA, Port: 7946, PMax: 5, PMin: 1, PCur: 2}
	p.addrB = Address{Addr: net.JoinHostPort(p.ipB.String(), "7946"), Name: p.B.m.config.Name}
	p.addrR = Address{Addr: net.JoinHostPort("10.0.0.9", "7946"), Name: "recorder"}
	p.nw.mu.Lock()
	p.nw.tapPacket = func(from, to *vSimTransport, buf []byte, fate string) {
		p.mu.Lock()
		defer p.mu.Unlock()
		if from == p.A.tr {
			p.fromA = append(p.fromA, append([]byte(nil), buf...))
		} else if from == p.B.tr {
			p.fromB = append(p.fromB, append([]byte(nil), buf...))
		}
	}
	p.nw.mu.Unlock()
	// packets are captured at the tap and handed over explicitly
	p.nw.partition(map[string]int{p.A.tr.name: 1, p.B.tr.name: 2, "recorder": 3})
	return p
}

func (p *vRPair) close() {
	_ = p.A.m.Shutdown()
	_ = p.B.m.Shutdown()
	p.nw.crash(p.A.tr.name)
	p.nw.crash(p.B.tr.name)
	p.nw.crash("recorder")
}

// record what a node writes to a stream it opens to the recorder
func (p *vRPair) recordStream(send func()) []byte {
	done := make(chan []byte, 1)
	go func() {
		select {
		case conn := <-p.rec.streamCh:
			var got bytes.Buffer
			buf := make([]byte, 65536)
			for {
				_ = conn.SetReadDeadline(time.Now().Add(300 * time.Millisecond))
				n, err := conn.Read(buf)
				got.Write(buf[:n])
				if err != nil {
					break
				}
			}
			_ = conn.Close()
			done <- got.Bytes()
		case <-time.After(3 * time.Second):
			done <- nil
		}
	}()
	p.nw.partition(map[string]int{})
	send()
	out := <-done
	p.nw.partition(map[string]int{p.A.tr.name: 1, p.B.tr.name: 2, "recorder": 3})
	return out
}

func (p *vRPair) take(fromB bool) [][]byte {
	p.mu.Lock()
	defer p.mu.Unlock()
	var out [][]byte
	if fromB {
		out, p.fromB = p.fromB, nil
	} else {
		out, p.fromA = p.fromA, nil
	}
	return out
}

// dup: the key list as an operator may have written it - every secondary key listed twice (NewKeyring
// installs each key once)
func vRKeyring(ids []string, dup bool) *Keyring {
	if len(ids) == 0 {
		kr, _ := NewKeyring(nil, nil)
		return kr
	}
	var all [][]byte
	for i, id := range ids {
		all = append(all, vWKeys[id])
		if dup && i > 0 {
			all = append(all, vWKeys[id])
		}
	}
	kr, err := NewKeyring(all, all[0])
	if err != nil {
		panic(err)
	}
	return kr
}

func (p *vRPair) run(t *testing.T, id int, c vRCase, emit func(vRLine)) {
	B, A := p.B, p.A
	B.m.config.Keyring = vRKeyring(c.Start, id%2 == 1)
	// (a node is usually created with Config.SecretKey = its first primary key; rotation happens on the keyring)
	B.m.config.SecretKey = nil
	if len(c.Start) > 0 {
		B.m.config.SecretKey = vWKeys[c.Start[0]]
	}
	B.d.mu.Lock()
	B.d.msgs, B.d.states = nil, nil
	B.d.mu.Unlock()
	p.take(true)
	p.take(false)
	for i, op := range c.Ops {
		l := vRLine{Ev: "RotStep", Case: id, I: i + 1, Op: op.Op, Key: op.Key, Klen: op.Klen, Path: op.Path, Msg: op.Msg,
			Vin: c.Vin, Vout: c.Vout, Seal: "none", Res: "ok"}
		l.Pre, l.Plens = vRRing(B.m.config.Keyring)
		var outB [][]byte
		switch op.Op {
		case "A", "U", "R":
			var err error
			switch op.Op {
			case "A":
				err = B.m.config.Keyring.AddKey(vWKeys[op.Key])
			case "U":
				err = B.m.config.Keyring.UseKey(vWKeys[op.Key])
			case "R":
				err = B.m.config.Keyring.RemoveKey(vWKeys[op.Key])
			}
			if err != nil {
				l.Res = "error"
			}
		case "V":
			// the sender seals under exactly the key of the step (or not at all)
			if op.Key == "plain" {
				A.m.config.Keyring = nil
			} else {
				A.m.config.Keyring = vRKeyring([]string{op.Key}, false)
			}
			payload := make([]byte, 20)
			rand.Read(payload)
			payload = append([]byte(vCanary+":"), payload...)
			p.seq++
			var wire []byte
			switch op.Msg {
			case "user":
				_ = A.m.SendBestEffort(p.nodeB, payload)
			case "ping":
				pg := ping{SeqNo: p.seq, Node: B.m.config.Name, SourceAddr: p.ipA, SourcePort: 7946, SourceNode: A.m.config.Name}
				_ = A.m.encodeAndSendMsg(p.addrB, pingMsg, &pg)
			case "userstream":
				wire = p.recordStream(func() { _ = A.m.sendUserMsg(p.addrR, payload) })
			case "pushpull":
				A.d.local = payload
				wire = p.recordStream(func() { _, _, _ = A.m.sendAndReceiveState(p.addrR, false) })
			}
			synctest.Wait()
			if op.Path == "packet" {
				if fr := p.take(false); len(fr) > 0 {
					wire = fr[0]
				}
			}
			if len(wire) == 0 {
				t.Fatalf("case %d step %d: the sender emitted nothing", id, i+1)
			}
			B.d.mu.Lock()
			n0m, n0s := len(B.d.msgs), len(B.d.states)
			B.d.mu.Unlock()
			p.take(true)
			if op.Path == "packet" {
				B.tr.packetCh <- &Packet{Buf: wire, From: &net.UDPAddr{IP: p.ipA, Port: 7946}, Timestamp: time.Now()}
				time.Sleep(50 * time.Millisecond)
				synctest.Wait()
				outB = p.take(true)
			} else {
				c1, c2 := net.Pipe()
				B.tr.streamCh <- c1
				go func() { _, _ = c2.Write(wire) }()
				var got bytes.Buffer
				buf := make([]byte, 65536)
				for {
					_ = c2.SetReadDeadline(time.Now().Add(2500 * time.Millisecond))
					n, err := c2.Read(buf)
					got.Write(buf[:n])
					if err != nil {
						break
					}
				}
				_ = c2.Close()
				synctest.Wait()
				if got.Len() > 0 {
					outB = [][]byte{got.Bytes()}
				}
			}
			B.d.mu.Lock()
			n1m, n1s := len(B.d.msgs), len(B.d.states)
			var lastMsg []byte
			if n1m > n0m {
				lastMsg = B.d.msgs[n1m-1]
			}
			var lastState []byte
			if n1s > n0s {
				lastState = B.d.states[n1s-1]
			}
			B.d.mu.Unlock()
			switch op.Msg {
			case "user", "userstream":
				l.Acted = n1m > n0m && bytes.Equal(lastMsg, payload)
			case "ping":
				l.Acted = len(outB) > 0
			case "pushpull":
				l.Acted = n1s > n0s && bytes.Equal(lastState, payload)
				if len(outB) > 0 && vClassifyStreamReply(outB[0], vWCfg{Keys: []string{"k1", "k2", "k3"}, Comp: true}) == "state" {
					l.Acted = true
				}
			}
		case "S":
			payload := append([]byte(vCanary+":out:"), byte(i))
			if op.Path == "packet" {
				_ = B.m.SendBestEffort(p.nodeA, payload)
				synctest.Wait()
				outB = p.take(true)
			} else {
				if w := p.recordStream(func() { _ = B.m.sendUserMsg(p.addrR, payload) }); len(w) > 0 {
					outB = [][]byte{w}
				}
				synctest.Wait()
			}
		}
		l.Frames = len(outB)
		for k, f := range outB {
			s := vRSeal(f, op.Path)
			if k == 0 {
				l.Seal = s
			} else if s != l.Seal {
				l.Seal = "mixed"
			}
		}
		if key, ok := vWKeys[l.Seal]; ok {
			l.SealLen = len(key)
		}
		l.Ring, l.Lens = vRRing(B.m.config.Keyring)
		emit(l)
	}
}

func TestVerifWireRot(t *testing.T) {
	cases, trace := os.Getenv("VERIF_PATHS"), os.Getenv("VERIF_TRACE")
	if cases == "" || trace == "" {
		t.Skip("VERIF_PATHS / VERIF_TRACE not set")
	}
	shard, nshard := 0, 1
	if v := os.Getenv("VERIF_SHARD"); v != "" {
		fmt.Sscanf(v, "%d/%d", &shard, &nshard)
	}
	f, err := os.Open(cases)
	if err != nil {
		t.Fatal(err)
	}
	defer f.Close()
	out, err := os.Create(trace)
	if err != nil {
		t.Fatal(err)
	}
	defer out.Close()
	w := bufio.NewWriter(out)
	defer w.Flush()
	sc := bufio.NewScanner(f)
	sc.Buffer(make([]byte, 1<<20), 1<<24)
	var all []vRCase
	var ids []int
	idx := 0
	for sc.Scan() {
		idx++
		if (idx-1)%nshard != shard {
			continue
		}
		var c vRCase
		if err := json.Unmarshal(sc.Bytes(), &c); err != nil {
			t.Fatalf("case %d: %v", idx, err)
		}
		all = append(all, c)
		ids = append(ids, idx)
	}
	const batch = 200
	for lo := 0; lo < len(all); lo += batch {
		hi := min(lo+batch, len(all))
		synctest.Test(t, func(t *testing.T) {
			pairs := map[[2]bool]*vRPair{}
			for i := lo; i < hi; i++ {
				c := all[i]
				k := [2]bool{c.Vin, c.Vout}
				p := pairs[k]
				if p == nil {
					p = vRNewPair(t, c.Vin, c.Vout, int64(ids[i]))
					pairs[k] = p
				}
				p.run(t, ids[i], c, func(l vRLine) {
					b, _ := json.Marshal(l)
					w.Write(b)
					w.WriteByte('\n')
				})
			}
			for _, p := range pairs {
				p.close()
			}
			time.Sleep(15 * time.Second)
		})
	}
}
