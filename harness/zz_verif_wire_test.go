//go:build verif

package memberlist

// Wire-pipeline cases between two real nodes (DESIGN.md §5 C12 C14 C15 C16, parts of C13).
//
// Every case printed by TLC from spec/Wire.tla (sender configuration x receiver
// configuration x message class x path x attack) is executed: a real sender node
// emits the message through the real send functions into a recorder, the harness
// (acting as the attacker of the model) modifies the captured bytes as the case
// says, and injects them into a real receiver node through its transport.  The
// receiver's effects (membership steps, delegate calls, replies) are recorded
// and TLC (spec/TraceWire.tla) judges the case.

import (
	"bufio"
	"bytes"
	"crypto/aes"
	"crypto/cipher"
	"crypto/rand"
	"crypto/sha256"
	"encoding/binary"
	"encoding/hex"
	"encoding/json"
	"fmt"
	"io"
	"log"
	"net"
	"os"
	"sort"
	"strings"
	"sync"
	"sync/atomic"
	"testing"
	"testing/synctest"
	"time"
)

type vWCfg struct {
	Label string   `json:"label"`
	Skip  bool     `json:"skip"`
	Keys  []string `json:"keys"`
	Vin   bool     `json:"vin"`
	Vout  bool     `json:"vout"`
	Proto int      `json:"proto"`
	Comp  bool     `json:"comp"`
}

type vWCase struct {
	S          vWCfg  `json:"s"`
	R          vWCfg  `json:"r"`
	Msg        string `json:"msg"`
	Path       string `json:"path"`
	PeerCrc    bool   `json:"peerCrc"`
	Shrinks    bool   `json:"shrinks"`
	Attack     string `json:"attack"`
	ForeignKey string `json:"foreignKey"`
	OtherLabel string `json:"otherLabel"`
	Compatible bool   `json:"compatible"` // the model's expectation; only used to choose the size sweep
	Pad        int    `json:"pad"`        // extra payload bytes of this run
	FixedPad   bool   `json:"fixedPad"`   // replay: use Pad as given
}

// vWLine: the recorded outcome of one case (all fields always present)
type vWLine struct {
	Ev   string `json:"ev"`
	Case int    `json:"case"`
	vWCase
	Frames      int    `json:"frames"`     // buffers the sender handed to its transport
	WireLen     int    `json:"wireLen"`    // length of the (first) frame
	Sealed      bool   `json:"sealed"`     // every sender buffer opens under the sender's primary key with its label as AAD
	Canary      bool   `json:"canary"`     // the payload canary is visible in a sender buffer
	Burst       bool   `json:"burst"`      // the line of the burst phase: three different messages ingested while the application is busy
	SentDigest  string `json:"sentDigest"` // digest of what the sender was asked to send
	Acted       bool   `json:"acted"`      // the receiver did anything (membership step, delegate call, ack/state reply)
	Delivered   string `json:"delivered"`  // digest of what reached the receiver's handler / delegate
	Reply       string `json:"reply"`      // none | ack | state | err | other
	NodeOps     int    `json:"nodeOps"`
	Mutated     bool   `json:"mutated"` // the attack changed at least one byte
	Note        string `json:"note"`
	Panic       string `json:"panic"`
	ReplyFrames int    `json:"replyFrames"` // buffers the receiver handed to its transport / wrote to the stream
	ReplySealed bool   `json:"replySealed"` // ... all of them sealed under the receiver's primary key with its label
	// byte campaign (attack "campaign"): every truncation and byte mutations of the genuine frame
	Injected     int `json:"injected"`
	ActedMut     int `json:"actedMut"`     // mutated / truncated inputs on which the receiver acted (version byte excluded)
	ActedVersion int `json:"actedVersion"` // ... of those that only changed the encryption version byte
	ChangedMut   int `json:"changedMut"`   // mutated inputs after which the receiver's membership differed
}

var vWKeys = map[string][]byte{
	"k1": []byte("0123456789abcdef"),
	"k2": []byte("fedcba9876543210fedcba98"),
	"k3": []byte("a1b2c3d4e5f60718a1b2c3d4e5f60718"),
}

const vCanary = "CANARY-7f3a-PAYLOAD"

// ---- delegate recording what reaches the application -----------------------

type vWDelegate struct {
	mu     sync.Mutex
	msgs   [][]byte
	states [][]byte
	local  []byte
	meta   []byte
	gate   chan struct{} // when set: the application is busy until the gate opens
}

func (d *vWDelegate) NodeMeta(limit int) []byte { return d.meta }
func (d *vWDelegate) NotifyMsg(b []byte) {
	d.mu.Lock()
	d.msgs = append(d.msgs, append([]byte(nil), b...))
	gate := d.gate
	d.mu.Unlock()
	if gate != nil {
		<-gate
	}
}
func (d *vWDelegate) GetBroadcasts(overhead, limit int) [][]byte { return nil }
func (d *vWDelegate) LocalState(join bool) []byte                { return d.local }
func (d *vWDelegate) MergeRemoteState(buf []byte, join bool) {
	d.mu.Lock()
	d.states = append(d.states, append([]byte(nil), buf...))
	d.mu.Unlock()
}

func vDigest(parts ...[]byte) string {
	h := sha256.New()
	for _, p := range parts {
		var l [4]byte
		binary.BigEndian.PutUint32(l[:], uint32(len(p)))
		h.Write(l[:])
		h.Write(p)
	}
	return hex.EncodeToString(h.Sum(nil))[:16]
}

// ---- independent crypto (standard library only, not the code under test) ----

func vOpenGCM(key, nonce, ct, aad []byte) ([]byte, bool) {
	blk, err := aes.NewCipher(key)
	if err != nil {
		return nil, false
	}
	g, err := cipher.NewGCM(blk)
	if err != nil {
		return nil, false
	}
	p, err := g.Open(nil, nonce, ct, aad)
	return p, err == nil
}

func vSealGCM(key, nonce, pt, aad []byte) []byte {
	blk, _ := aes.NewCipher(key)
	g, _ := cipher.NewGCM(blk)
	return g.Seal(nil, nonce, pt, aad)
}

// vSplitLabel separates the cleartext label header
func vSplitLabel(b []byte) (label string, rest []byte, ok bool) {
	if len(b) == 0 || b[0] != 244 {
		return "", b, true
	}
	if len(b) < 2 || int(b[1]) < 1 || len(b) < 2+int(b[1]) {
		return "", nil, false
	}
	return string(b[2 : 2+int(b[1])]), b[2+int(b[1]):], true
}

func vWithLabel(label string, rest []byte) []byte {
	if label == "" {
		return append([]byte(nil), rest...)
	}
	out := []byte{244, byte(len(label))}
	out = append(out, label...)
	return append(out, rest...)
}

// vOpenPacket opens a packet frame body [vsn][nonce 12][ct+tag] under key with AAD = label
func vOpenPacket(body []byte, key []byte, label string) (plain []byte, vsn byte, ok bool) {
	if len(body) < 1+12+16 || body[0] > 1 {
		return nil, 0, false
	}
	p, ok := vOpenGCM(key, body[1:13], body[13:], []byte(label))
	if !ok {
		return nil, body[0], false
	}
	if body[0] == 0 && len(p) > 0 {
		n := int(p[len(p)-1])
		if n <= len(p) {
			p = p[:len(p)-n]
		}
	}
	return p, body[0], true
}

// vOpenStream opens a stream frame [encryptMsg][len u32][vsn][nonce][ct+tag] with AAD = first 5 bytes || label
func vOpenStream(body []byte, key []byte, label string) (plain []byte, ok bool) {
	if len(body) < 5+1+12+16 || messageType(body[0]) != encryptMsg {
		return nil, false
	}
	n := int(binary.BigEndian.Uint32(body[1:5]))
	if len(body) < 5+n {
		return nil, false
	}
	aad := append(append([]byte(nil), body[:5]...), label...)
	c := body[5 : 5+n]
	p, ok := vOpenGCM(key, c[1:13], c[13:], aad)
	if !ok {
		return nil, false
	}
	if c[0] == 0 && len(p) > 0 {
		k := int(p[len(p)-1])
		if k <= len(p) {
			p = p[:len(p)-k]
		}
	}
	return p, true
}

// ---- a node for wire cases: real Memberlist, no background tickers -----------

type vWNode struct {
	m   *Memberlist
	tr  *vSimTransport
	d   *vWDelegate
	cfg vWCfg
	ip  net.IP
}

func vWNewNode(t *testing.T, nw *vNet, name string, ip net.IP, c vWCfg) *vWNode {
	conf := DefaultLANConfig()
	conf.Name = name
	conf.BindPort, conf.AdvertisePort = 7946, 7946
	conf.Logger = log.New(io.Discard, "", 0)
	conf.Label = c.Label
	conf.SkipInboundLabelCheck = c.Skip
	conf.GossipVerifyIncoming = c.Vin
	conf.GossipVerifyOutgoing = c.Vout
	conf.EnableCompression = c.Comp
	if c.Proto != 0 {
		conf.ProtocolVersion = uint8(c.Proto)
	}
	if len(c.Keys) > 0 {
		var all [][]byte
		for _, k := range c.Keys {
			all = append(all, vWKeys[k])
		}
		kr, err := NewKeyring(all, all[0])
		if err != nil {
			t.Fatal(err)
		}
		conf.Keyring = kr
	}
	conf.TCPTimeout = 2 * time.Second
	nd := &vWNode{cfg: c, ip: ip, d: &vWDelegate{meta: []byte("meta-" + name), local: []byte("STATE-" + vCanary + "-" + name)}}
	nd.tr = nw.attach(name, ip, 7946)
	conf.Transport = nd.tr
	conf.Delegate = nd.d
	m, err := newMemberlist(conf)
	if err != nil {
		t.Fatalf("newMemberlist: %v", err)
	}
	if err := m.setAlive(); err != nil {
		t.Fatal(err)
	}
	nd.m = m
	return nd
}

// ---- attacks on captured bytes ----------------------------------------------

func (c *vWCase) senderKey() []byte {
	if len(c.S.Keys) > 0 && c.S.Vout {
		return vWKeys[c.S.Keys[0]]
	}
	return nil
}

// attackPacket applies the case's attack to a captured packet; returns nil if it cannot be applied
func (c *vWCase) attackPacket(frame []byte) ([]byte, string) {
	label, body, ok := vSplitLabel(frame)
	if !ok {
		return nil, "bad label header from sender"
	}
	key := c.senderKey()
	out := append([]byte(nil), frame...)
	hdr := len(frame) - len(body)
	switch c.Attack {
	case "none":
	case "body":
		if len(body) < 2 {
			return nil, "too short"
		}
		out[hdr+len(body)*2/3] ^= 0x41
	case "version":
		if key != nil {
			out[hdr] ^= 1
		} else {
			out[hdr+len(body)-1] ^= 0x41
		}
	case "relabel":
		out = vWithLabel(c.OtherLabel, body)
	case "striplabel":
		out = append([]byte(nil), body...)
	case "foreignkey":
		if key != nil {
			p, vsn, ok := vOpenPacket(body, key, label)
			if !ok {
				return nil, "cannot open genuine frame"
			}
			if vsn == 0 { // re-pad
				more := 16 - len(p)%16
				p = append(p, bytes.Repeat([]byte{byte(more)}, more)...)
			}
			nonce := make([]byte, 12)
			rand.Read(nonce)
			ct := vSealGCM(vWKeys[c.ForeignKey], nonce, p, []byte(label))
			out = vWithLabel(label, append(append([]byte{vsn}, nonce...), ct...))
		}
	case "plaintext":
		if key != nil {
			p, _, ok := vOpenPacket(body, key, label)
			if !ok {
				return nil, "cannot open genuine frame"
			}
			out = vWithLabel(label, p)
		}
	case "crc":
		if key == nil && len(body) >= 5 && messageType(body[0]) == hasCrcMsg {
			out[hdr+2] ^= 0x55
		} else {
			out[hdr+len(body)*2/3] ^= 0x41
		}
	default:
		return nil, "unknown attack"
	}
	return out, ""
}

func (c *vWCase) attackStream(stream []byte) ([]byte, string) {
	label, body, ok := vSplitLabel(stream)
	if !ok {
		return nil, "bad label header from sender"
	}
	key := c.senderKey()
	out := append([]byte(nil), stream...)
	hdr := len(stream) - len(body)
	switch c.Attack {
	case "none":
	case "body", "crc":
		if len(body) < 8 {
			return nil, "too short"
		}
		out[hdr+5+(len(body)-5)*2/3] ^= 0x41
	case "version":
		if key != nil {
			out[hdr+5] ^= 1
		} else {
			out[hdr+len(body)-1] ^= 0x41
		}
	case "relabel":
		out = vWithLabel(c.OtherLabel, body)
	case "striplabel":
		out = append([]byte(nil), body...)
	case "foreignkey":
		if key != nil {
			p, ok := vOpenStream(body, key, label)
			if !ok {
				return nil, "cannot open genuine stream"
			}
			vsn := body[5]
			if vsn == 0 {
				more := 16 - len(p)%16
				p = append(p, bytes.Repeat([]byte{byte(more)}, more)...)
			}
			nonce := make([]byte, 12)
			rand.Read(nonce)
			aad := append(append([]byte(nil), body[:5]...), label...)
			ct := vSealGCM(vWKeys[c.ForeignKey], nonce, p, aad)
			out = vWithLabel(label, append(append(append([]byte(nil), body[:5]...), append([]byte{vsn}, nonce...)...), ct...))
		}
	case "plaintext":
		if key != nil {
			p, ok := vOpenStream(body, key, label)
			if !ok {
				return nil, "cannot open genuine stream"
			}
			out = vWithLabel(label, p)
		}
	default:
		return nil, "unknown attack"
	}
	return out, ""
}

// ---- one case ------------------------------------------------------------------

// send sites (caller file:line>callee) through which the buffers of the executed cases left the nodes
var vWSites = struct {
	mu sync.Mutex
	m  map[string]int
}{m: map[string]int{}}

// vTapConn notes the send site of every write of the node under test to an injected stream
type vTapConn struct{ net.Conn }

func (c *vTapConn) Write(b []byte) (int, error) {
	func() { vWNoteSites(vSendSites()) }()
	return c.Conn.Write(b)
}

func vWNoteSites(sites []string) {
	vWSites.mu.Lock()
	for _, s := range sites {
		vWSites.m[s]++
	}
	vWSites.mu.Unlock()
}

// vWTiny: one case in eight
func vWTiny(id int) bool { return (uint32(id)*40503)>>13&7 == 0 }

// vWPad: 0..15, spread over the cases
func vWPad(id int) int { return int((uint32(id) * 2654435761) >> 28) }

func vWRun(t *testing.T, s *vSink, id int, c vWCase) (l vWLine) {
	if c.Pad < 0 {
		c.Pad = vWPad(id)
	}
	l.Ev, l.Case, l.vWCase = "WireCase", id, c
	l.Reply = "none"
	nw := vNewNet(int64(id))
	ipA, ipB := net.IPv4(10, 0, 0, 1).To4(), net.IPv4(10, 0, 0, 2).To4()
	// names equal the IP strings so that the sender's by-address lookup of the peer works
	A := vWNewNode(t, nw, ipA.String(), ipA, c.S)
	B := vWNewNode(t, nw, ipB.String(), ipB, c.R)
	defer func() {
		s.unregister(B.m)
		_ = A.m.Shutdown()
		_ = B.m.Shutdown()
		nw.crash(A.tr.name)
		nw.crash(B.tr.name)
	}()
	nB := s.register(B.m, vCfg{Mult: 4, MaxMult: 6, Interval: 1000}, nil, "", nil)
	nB.created = true

	// what the sender believes about the receiver (decides the checksum layer)
	pmax := uint8(2)
	if c.PeerCrc {
		pmax = 5
	}
	A.m.aliveNode(&alive{Incarnation: 1, Node: B.m.config.Name, Addr: ipB, Port: 7946, Vsn: []uint8{1, pmax, 2, 0, 0, 0}}, nil, false)
	nodeB := &Node{Name: B.m.config.Name, Addr: ipB, Port: 7946, PMax: pmax, PMin: 1, PCur: 2}
	addrB := Address{Addr: net.JoinHostPort(ipB.String(), "7946"), Name: B.m.config.Name}

	// payload: compressible or not, always carrying the canary
	payload := []byte(vCanary + ":")
	if c.Shrinks {
		payload = append(payload, bytes.Repeat([]byte("abcdefgh"), 40)...)
	} else {
		junk := make([]byte, 24)
		rand.Read(junk)
		payload = append(payload, junk...)
	}
	// the size walks through every residue modulo the cipher's block size over consecutive cases
	// (encryption version 0 pads; a plaintext that ends on a block boundary is the special case)
	pad := make([]byte, c.Pad)
	rand.Read(pad)
	payload = append(payload, pad...)
	// one case in eight carries the smallest payload there is: a message shorter than a cipher block, than the
	// smallest ciphertext, than any header
	if vWTiny(id) && c.Pad < 16 {
		payload = []byte{0x42}
	}

	// capture what the sender emits
	var mu sync.Mutex
	var frames [][]byte
	var fromB [][]byte
	hold := true // do not deliver the sender's packets automatically
	nw.mu.Lock()
	nw.tapStream = func(from, to *vSimTransport, dir string, buf []byte) { vWNoteSites(vSendSites()) }
	nw.tapPacket = func(from, to *vSimTransport, buf []byte, fate string) {
		vWNoteSites(vSendSites())
		mu.Lock()
		defer mu.Unlock()
		if from == A.tr {
			frames = append(frames, append([]byte(nil), buf...))
		} else if from == B.tr {
			fromB = append(fromB, append([]byte(nil), buf...))
		}
	}
	nw.mu.Unlock()
	if hold {
		nw.partition(map[string]int{A.tr.name: 1, B.tr.name: 2}) // packets are captured at the tap, not delivered
	}

	var sendErr error
	var streamOut []byte
	switch c.Path {
	case "packet":
		switch c.Msg {
		case "user":
			l.SentDigest = vDigest(payload)
			if id%2 == 0 {
				sendErr = A.m.SendBestEffort(nodeB, payload)
			} else {
				sendErr = A.m.SendToAddress(addrB, payload)
			}
		case "alive":
			a := alive{Incarnation: 7, Node: "third", Addr: net.IPv4(10, 0, 0, 3).To4(), Port: 7946, Meta: payload, Vsn: []uint8{1, 5, 2, 0, 0, 0}}
			l.SentDigest = vDigest([]byte(a.Node), []byte{7}, a.Meta)
			buf, err := encode(aliveMsg, &a, false)
			if err != nil {
				t.Fatal(err)
			}
			sendErr = A.m.rawSendMsgPacket(addrB, nodeB, buf.Bytes())
		case "ping":
			p := ping{SeqNo: 4242, Node: B.m.config.Name, SourceAddr: ipA, SourcePort: 7946, SourceNode: A.m.config.Name}
			l.SentDigest = vDigest([]byte("ack"), []byte{0x10, 0x92})
			if id%2 == 0 {
				sendErr = A.m.encodeAndSendMsg(addrB, pingMsg, &p)
			} else {
				// the public Ping call (it waits for the ack in the background; the ping itself is captured)
				atomic.StoreUint32(&A.m.sequenceNum, 4241)
				go func() { _, _ = A.m.Ping(B.m.config.Name, &net.UDPAddr{IP: ipB, Port: 7946}) }()
			}
		case "indirect":
			// ask the receiver to probe a silent third party on our behalf and to nack if it stays silent
			ind := indirectPingReq{SeqNo: 4242, Target: net.IPv4(10, 0, 0, 77).To4(), Port: 7946, Node: "ghost", Nack: true,
				SourceAddr: ipA, SourcePort: 7946, SourceNode: A.m.config.Name}
			l.SentDigest = vDigest([]byte("nack"), []byte{0x10, 0x92})
			sendErr = A.m.encodeAndSendMsg(addrB, indirectPingMsg, &ind)
		case "compound":
			a := alive{Incarnation: 7, Node: "third", Addr: net.IPv4(10, 0, 0, 3).To4(), Port: 7946, Meta: payload, Vsn: []uint8{1, 5, 2, 0, 0, 0}}
			l.SentDigest = vDigest([]byte(a.Node), []byte{7}, a.Meta)
			b1, _ := encode(aliveMsg, &a, false)
			u := append([]byte{byte(userMsg)}, []byte("second-part")...)
			comp := makeCompoundMessage([][]byte{b1.Bytes(), u})
			sendErr = A.m.rawSendMsgPacket(addrB, nodeB, comp.Bytes())
		}
	case "stream":
		// the sender's stream goes to a recorder; its bytes are replayed (possibly modified) to the receiver
		rec := nw.attach("recorder", net.IPv4(10, 0, 0, 9).To4(), 7946)
		addrR := Address{Addr: net.JoinHostPort("10.0.0.9", "7946"), Name: "recorder"}
		done := make(chan []byte, 1)
		go func() {
			select {
			case conn := <-rec.streamCh:
				var got bytes.Buffer
				buf := make([]byte, 65536)
				for {
					_ = conn.SetReadDeadline(time.Now().Add(300 * time.Millisecond))
					n, err := conn.Read(buf)
					got.Write(buf[:n])
					if err != nil {
						break
					}
				}
				_ = conn.Close()
				done <- got.Bytes()
			case <-time.After(3 * time.Second):
				done <- nil
			}
		}()
		nw.partition(map[string]int{})
		switch c.Msg {
		case "userstream":
			l.SentDigest = vDigest(payload)
			sendErr = A.m.SendReliable(&Node{Name: "recorder", Addr: net.IPv4(10, 0, 0, 9).To4(), Port: 7946}, payload)
		case "pushpull":
			A.d.local = payload
			l.SentDigest = vDigest(payload)
			_, _, sendErr = A.m.sendAndReceiveState(addrR, true)
		case "tcpping":
			p := ping{SeqNo: 4242, Node: B.m.config.Name}
			l.SentDigest = vDigest([]byte("ack"), []byte{0x10, 0x92})
			_, sendErr = A.m.sendPingAndWaitForAck(addrR, p, time.Now().Add(time.Second))
		}
		streamOut = <-done
		nw.crash("recorder")
		sendErr = nil // the recorder never answers: the sender's error is expected
	}
	_ = sendErr
	synctest.Wait()

	mu.Lock()
	sent := frames
	frames = nil
	mu.Unlock()
	if c.Path == "stream" {
		sent = [][]byte{streamOut}
	}
	l.Frames = len(sent)
	if len(sent) == 0 || len(sent[0]) == 0 {
		l.Note = "sender emitted nothing"
		return l
	}
	l.WireLen = len(sent[0])

	// C15: what left the sender
	l.Sealed = true
	for _, f := range sent {
		if bytes.Contains(f, []byte(vCanary)) {
			l.Canary = true
		}
		lab, body, ok := vSplitLabel(f)
		key := vWKeys[firstOr(c.S.Keys, "")]
		if !ok || key == nil || lab != c.S.Label {
			l.Sealed = false
			continue
		}
		if c.Path == "packet" {
			if _, _, ok := vOpenPacket(body, key, c.S.Label); !ok {
				l.Sealed = false
			}
		} else {
			if _, ok := vOpenStream(body, key, c.S.Label); !ok {
				l.Sealed = false
			}
		}
	}

	if c.Attack == "campaign" {
		vWCampaign(t, s, &l, c, nw, B, ipA, sent[0], os.Getenv("VERIF_TIER") == "thorough")
		return l
	}

	// the attacker of the model
	var wire []byte
	var why string
	if c.Path == "packet" {
		wire, why = c.attackPacket(sent[0])
	} else {
		wire, why = c.attackStream(sent[0])
	}
	if wire == nil {
		l.Note = "attack not applicable: " + why
		return l
	}
	l.Mutated = !bytes.Equal(wire, sent[0])

	// inject into the receiver
	var streamReply []byte
	nw.partition(map[string]int{})
	ops0 := s.lines
	s.mu.Lock()
	s.collect = true
	s.mem = nil
	s.mu.Unlock()
	if c.Path == "packet" {
		B.tr.packetCh <- &Packet{Buf: wire, From: &net.UDPAddr{IP: ipA, Port: 7946}, Timestamp: time.Now()}
		time.Sleep(50 * time.Millisecond)
	} else {
		c1, c2 := net.Pipe()
		B.tr.streamCh <- &vTapConn{Conn: c1}
		go func() { _, _ = c2.Write(wire) }()
		var got bytes.Buffer
		buf := make([]byte, 65536)
		for {
			_ = c2.SetReadDeadline(time.Now().Add(2500 * time.Millisecond))
			n, err := c2.Read(buf)
			got.Write(buf[:n])
			if err != nil {
				break
			}
		}
		_ = c2.Close()
		l.Reply = vClassifyStreamReply(got.Bytes(), c.R)
		streamReply = append([]byte(nil), got.Bytes()...)
	}
	if c.Msg == "indirect" {
		time.Sleep(900 * time.Millisecond) // the relay's own probe timeout, then its nack
	}
	synctest.Wait()
	_ = ops0

	// effects at the receiver
	s.mu.Lock()
	var third *vLine
	for _, x := range s.mem {
		if x.Ev == "NodeOp" {
			l.NodeOps++
			if x.Claim.Node == "third" {
				third = x
			}
		}
	}
	s.collect = false
	s.mem = nil
	s.mu.Unlock()
	B.d.mu.Lock()
	msgs, states := B.d.msgs, B.d.states
	B.d.mu.Unlock()
	mu.Lock()
	replies := fromB
	mu.Unlock()
	switch c.Msg {
	case "user", "userstream":
		if len(msgs) > 0 {
			l.Acted = true
			l.Delivered = vDigest(msgs[0])
		}
	case "alive", "compound":
		if third != nil {
			l.Acted = true
			// metadata as the hook saw it is abbreviated; compare through the record instead
			B.m.nodeLock.RLock()
			if st, ok := B.m.nodeMap["third"]; ok {
				l.Delivered = vDigest([]byte(st.Name), []byte{byte(st.Incarnation)}, st.Meta)
			}
			B.m.nodeLock.RUnlock()
		}
		if len(msgs) > 0 && c.Msg == "alive" {
			l.Acted = true
		}
	case "ping":
		for _, r := range replies {
			if seq, ok := vDecodeAck(r, c.R); ok {
				l.Acted = true
				l.Reply = "ack"
				l.Delivered = vDigest([]byte("ack"), []byte{byte(seq >> 8), byte(seq)})
			}
		}
	case "tcpping":
		if l.Reply == "ack" {
			l.Acted = true
			l.Delivered = vDigest([]byte("ack"), []byte{0x10, 0x92})
		}
	case "pushpull":
		if len(states) > 0 {
			l.Acted = true
			l.Delivered = vDigest(states[0])
		}
		if l.Reply == "state" || l.NodeOps > 0 {
			l.Acted = true
		}
	}
	// C15 for the receiver's own output: replies, relayed pings, nacks, error replies, its push/pull state
	l.ReplySealed = true
	rkey := vWKeys[firstOr(c.R.Keys, "")]
	for _, f := range replies {
		l.ReplyFrames++
		lab, body, ok := vSplitLabel(f)
		if !ok || rkey == nil || lab != c.R.Label {
			l.ReplySealed = false
			continue
		}
		if _, _, ok := vOpenPacket(body, rkey, c.R.Label); !ok {
			l.ReplySealed = false
		}
	}
	if len(streamReply) > 0 {
		l.ReplyFrames++
		if rkey == nil {
			l.ReplySealed = false
		} else if _, ok := vOpenStream(streamReply, rkey, c.R.Label); !ok {
			l.ReplySealed = false
		}
	}
	if c.Msg == "indirect" {
		for _, r := range replies {
			if seq, ok := vDecodeNack(r, c.R); ok {
				l.Acted = true
				l.Reply = "nack"
				l.Delivered = vDigest([]byte("nack"), []byte{byte(seq >> 8), byte(seq)})
			}
		}
	}
	// anything else the receiver did also counts as acting
	if l.NodeOps > 0 || len(msgs) > 0 || len(states) > 0 || len(replies) > 0 || l.Reply == "ack" || l.Reply == "state" {
		l.Acted = true
	}
	// Burst phase (a user packet that arrived intact): three further, different messages are ingested while the
	// application is still busy with the first of them - they wait in the hand-off queue, which holds what the listener
	// decoded, so whatever buffer the listener decoded into must not be reused meanwhile.  Recorded as a line of its own.
	if c.Path == "packet" && c.Msg == "user" && c.Attack == "none" && c.Compatible && l.Acted && l.Delivered == l.SentDigest {
		var sentAll, wires [][]byte
		nw.partition(map[string]int{A.tr.name: 1, B.tr.name: 2})
		for k := 0; k < 3; k++ {
			p := append([]byte(fmt.Sprintf("burst-%d:", k)), bytes.Repeat([]byte{byte('a' + k), byte('A' + k)}, 150+17*k)...)
			mu.Lock()
			frames = nil
			mu.Unlock()
			_ = A.m.SendBestEffort(nodeB, p)
			synctest.Wait()
			mu.Lock()
			if len(frames) > 0 {
				wires = append(wires, frames[0])
				sentAll = append(sentAll, p)
			}
			mu.Unlock()
		}
		gate := make(chan struct{})
		B.d.mu.Lock()
		n0 := len(B.d.msgs)
		B.d.gate = gate
		B.d.mu.Unlock()
		nw.partition(map[string]int{})
		for _, wr := range wires {
			B.tr.packetCh <- &Packet{Buf: wr, From: &net.UDPAddr{IP: ipA, Port: 7946}, Timestamp: time.Now()}
			time.Sleep(5 * time.Millisecond)
			synctest.Wait()
		}
		B.d.mu.Lock()
		B.d.gate = nil
		B.d.mu.Unlock()
		close(gate)
		time.Sleep(50 * time.Millisecond)
		synctest.Wait()
		B.d.mu.Lock()
		got := append([][]byte(nil), B.d.msgs[n0:]...)
		B.d.mu.Unlock()
		// (the hand-off queue is not first-in first-out: the messages are compared as a set)
		sort.Slice(sentAll, func(i, j int) bool { return bytes.Compare(sentAll[i], sentAll[j]) < 0 })
		sort.Slice(got, func(i, j int) bool { return bytes.Compare(got[i], got[j]) < 0 })
		lb := l
		lb.Burst = true
		lb.SentDigest = vDigest(sentAll...)
		lb.Delivered = vDigest(got...)
		lb.Acted = len(got) > 0
		vWExtra = append(vWExtra, lb)
	}
	return l
}

// lines of burst phases, written by the caller after the line of the case
var vWExtra []vWLine

// vWCampaign fires every truncation and single-byte mutations of a genuine frame at the receiver
func vWCampaign(t *testing.T, s *vSink, l *vWLine, c vWCase, nw *vNet, B *vWNode, ipA net.IP, frame []byte, all bool) {
	nw.partition(map[string]int{})
	_, body, _ := vSplitLabel(frame)
	hdr := len(frame) - len(body)
	vsnPos := -1
	if c.senderKey() != nil {
		vsnPos = hdr
		if c.Path == "stream" {
			vsnPos = hdr + 5
		}
	}
	digest := func() string {
		B.m.nodeLock.RLock()
		defer B.m.nodeLock.RUnlock()
		var parts []string
		for name, st := range B.m.nodeMap {
			parts = append(parts, fmt.Sprintf("%s:%d:%d:%x", name, st.State, st.Incarnation, st.Meta))
		}
		sort.Strings(parts)
		return strings.Join(parts, ",")
	}
	effects := func() int {
		B.d.mu.Lock()
		defer B.d.mu.Unlock()
		return len(B.d.msgs) + len(B.d.states)
	}
	fire := func(wire []byte, isVersion bool) {
		d0, e0 := digest(), effects()
		s.mu.Lock()
		ops0 := s.lines
		s.mu.Unlock()
		if c.Path == "packet" {
			B.tr.packetCh <- &Packet{Buf: wire, From: &net.UDPAddr{IP: ipA, Port: 7946}, Timestamp: time.Now()}
			time.Sleep(5 * time.Millisecond)
		} else {
			c1, c2 := net.Pipe()
			B.tr.streamCh <- &vTapConn{Conn: c1}
			go func() { _, _ = c2.Write(wire); time.Sleep(50 * time.Millisecond); _ = c2.Close() }()
			buf := make([]byte, 4096)
			for {
				_ = c2.SetReadDeadline(time.Now().Add(2500 * time.Millisecond))
				if _, err := c2.Read(buf); err != nil {
					break
				}
			}
			_ = c2.Close()
			time.Sleep(2100 * time.Millisecond) // the handler's own deadline
		}
		synctest.Wait()
		l.Injected++
		s.mu.Lock()
		acted := s.lines != ops0
		s.mu.Unlock()
		if effects() != e0 {
			acted = true
		}
		if acted {
			if isVersion {
				l.ActedVersion++
			} else {
				l.ActedMut++
			}
		}
		if digest() != d0 && !isVersion {
			l.ChangedMut++
		}
	}
	// The encryption version byte is not authenticated: with it flipped, a genuine ciphertext is opened under the other
	// version's rules (padding removed or not), and what those rules do depends on the length of the plaintext and on
	// its last byte.  Genuine ciphertexts (sealed here with the standard library under the receiver's key) of every
	// plaintext length 1..40 x last byte 0..33, 0x80, 0xff, both versions, sent with the version byte flipped.
	if key := c.senderKey(); key != nil && c.Path == "packet" && c.Msg == "user" {
		lab, _, _ := vSplitLabel(frame)
		lasts := []int{0x80, 0xff}
		for b := 0; b <= 33; b++ {
			lasts = append(lasts, b)
		}
		for n := 1; n <= 40; n++ {
			for _, last := range lasts {
				for vsn := byte(0); vsn <= 1; vsn++ {
					pt := make([]byte, n)
					pt[0] = byte(userMsg)
					for i := 1; i < n; i++ {
						pt[i] = byte(0x41 + (i+n)%23)
					}
					pt[n-1] = byte(last)
					if n == 1 && byte(last) != byte(userMsg) {
						continue
					}
					in := pt
					if vsn == 0 { // the padded format
						pad := 16 - len(pt)%16
						in = append(append([]byte(nil), pt...), bytes.Repeat([]byte{byte(pad)}, pad)...)
					}
					nonce := []byte{9, 8, 7, 6, 5, 4, 3, 2, 1, byte(n), byte(last), vsn}
					ct := vSealGCM(key, nonce, in, []byte(lab))
					wire := vWithLabel(lab, append(append([]byte{vsn ^ 1}, nonce...), ct...))
					fire(wire, true)
				}
			}
		}
	}
	for k := 0; k < len(frame); k++ { // every truncation
		fire(append([]byte(nil), frame[:k]...), false)
	}
	pats := []byte{0x01, 0x80, 0xff, 0x41, 0x10, 0x7f, 0x02, 0xaa}
	for pos := 0; pos < len(frame); pos++ {
		var xs []byte
		if all || pos < hdr+8 {
			for x := 1; x < 256; x++ {
				xs = append(xs, byte(x))
			}
		} else {
			xs = pats
		}
		for _, x := range xs {
			w := append([]byte(nil), frame...)
			w[pos] ^= x
			fire(w, pos == vsnPos)
		}
	}
}

func firstOr(s []string, d string) string {
	if len(s) > 0 {
		return s[0]
	}
	return d
}

// vClassifyStreamReply: none | err | ack | state | other
func vClassifyStreamReply(b []byte, r vWCfg) string {
	if len(b) == 0 {
		return "none"
	}
	_, body, ok := vSplitLabel(b)
	if !ok {
		return "other"
	}
	plain := body
	if len(body) > 0 && messageType(body[0]) == encryptMsg {
		opened := false
		for _, k := range r.Keys {
			if p, ok := vOpenStream(body, vWKeys[k], r.Label); ok {
				plain, opened = p, true
				break
			}
		}
		if !opened {
			return "other"
		}
	}
	if len(plain) == 0 {
		return "other"
	}
	t := messageType(plain[0])
	if t == compressMsg {
		if p, err := decompressPayload(plain[1:]); err == nil && len(p) > 0 {
			t = messageType(p[0])
		}
	}
	switch t {
	case errMsg:
		return "err"
	case ackRespMsg:
		return "ack"
	case pushPullMsg:
		return "state"
	}
	return "other"
}

// vDecodeNack: like vDecodeAck for nack responses
func vDecodeNack(b []byte, r vWCfg) (uint32, bool) {
	lab, body, ok := vSplitLabel(b)
	if !ok {
		return 0, false
	}
	plain := body
	if len(r.Keys) > 0 && r.Vout {
		p, _, ok := vOpenPacket(body, vWKeys[r.Keys[0]], lab)
		if !ok {
			return 0, false
		}
		plain = p
	}
	for depth := 0; depth < 4 && len(plain) > 0; depth++ {
		switch messageType(plain[0]) {
		case hasCrcMsg:
			if len(plain) < 5 {
				return 0, false
			}
			plain = plain[5:]
		case compoundMsg:
			_, parts, err := decodeCompoundMessage(plain[1:])
			if err != nil || len(parts) == 0 {
				return 0, false
			}
			plain = parts[0]
		case compressMsg:
			p, err := decompressPayload(plain[1:])
			if err != nil {
				return 0, false
			}
			plain = p
		case nackRespMsg:
			var a nackResp
			if err := decode(plain[1:], &a); err != nil {
				return 0, false
			}
			return a.SeqNo, true
		default:
			return 0, false
		}
	}
	return 0, false
}

// vDecodeAck opens a packet the receiver sent back and returns the ack's sequence number
func vDecodeAck(b []byte, r vWCfg) (uint32, bool) {
	lab, body, ok := vSplitLabel(b)
	if !ok {
		return 0, false
	}
	plain := body
	if len(r.Keys) > 0 && r.Vout {
		p, _, ok := vOpenPacket(body, vWKeys[r.Keys[0]], lab)
		if !ok {
			return 0, false
		}
		plain = p
	}
	for depth := 0; depth < 4 && len(plain) > 0; depth++ {
		switch messageType(plain[0]) {
		case hasCrcMsg:
			if len(plain) < 5 {
				return 0, false
			}
			plain = plain[5:]
		case compressMsg:
			p, err := decompressPayload(plain[1:])
			if err != nil {
				return 0, false
			}
			plain = p
		case compoundMsg:
			_, parts, err := decodeCompoundMessage(plain[1:])
			if err != nil || len(parts) == 0 {
				return 0, false
			}
			plain = parts[0]
		case ackRespMsg:
			var a ackResp
			if err := decode(plain[1:], &a); err != nil {
				return 0, false
			}
			return a.SeqNo, true
		default:
			return 0, false
		}
	}
	return 0, false
}

// ---- label codec: add then remove is the identity, for every label length, on packets and on
// streams however the stream is fragmented (C16) ------------------------------------------------

type vCodecLine struct {
	Ev       string `json:"ev"`
	Case     int    `json:"case"`
	Kind     string `json:"kind"` // packet | stream
	LabelLen int    `json:"labelLen"`
	Payload  string `json:"payload"` // class of the payload
	Frag     string `json:"frag"`    // how the stream was written
	Ok       bool   `json:"ok"`
	Why      string `json:"why"`
}

type vFragConn struct {
	net.Conn
}

func TestVerifLabelCodec(t *testing.T) {
	trace := os.Getenv("VERIF_TRACE")
	if trace == "" {
		t.Skip("VERIF_TRACE not set")
	}
	out, err := os.Create(trace)
	if err != nil {
		t.Fatal(err)
	}
	defer out.Close()
	w := bufio.NewWriter(out)
	defer w.Flush()
	payloads := map[string][]byte{
		"empty":       {},
		"one":         {7},
		"magic-first": {244, 3, 'a', 'b', 'c', 9, 9}, // looks like a label header itself
		"ping":        append([]byte{byte(pingMsg)}, bytes.Repeat([]byte{0x55}, 40)...),
		"large":       bytes.Repeat([]byte("0123456789abcdef"), 600),
	}
	id := 0
	emit := func(l vCodecLine) {
		id++
		l.Ev, l.Case = "Codec", id
		b, _ := json.Marshal(l)
		w.Write(b)
		w.WriteByte('\n')
	}
	for n := 1; n <= 255; n++ {
		label := strings.Repeat("x", n-1) + string(rune('a'+n%26))
		for pc, p := range payloads {
			// packets
			l := vCodecLine{Kind: "packet", LabelLen: n, Payload: pc, Frag: "-", Ok: true}
			buf, err := AddLabelHeaderToPacket(p, label)
			if err != nil {
				l.Ok, l.Why = false, "add: "+err.Error()
			} else {
				rest, got, err := RemoveLabelHeaderFromPacket(buf)
				if err != nil || got != label || !bytes.Equal(rest, p) {
					l.Ok, l.Why = false, fmt.Sprintf("remove: err=%v label ok=%v payload ok=%v", err, got == label, bytes.Equal(rest, p))
				}
			}
			emit(l)
			// streams under several fragmentations
			for _, frag := range []string{"one-write", "byte-by-byte", "split-in-header", "header-then-payload"} {
				if pc == "large" && frag == "byte-by-byte" && n%16 != 0 {
					continue
				}
				l := vCodecLine{Kind: "stream", LabelLen: n, Payload: pc, Frag: frag, Ok: true}
				c1, c2 := net.Pipe()
				hdr := append([]byte{244, byte(n)}, label...)
				all := append(append([]byte(nil), hdr...), p...)
				go func() {
					defer c1.Close()
					switch frag {
					case "one-write":
						_, _ = c1.Write(all)
					case "byte-by-byte":
						for i := range all {
							if _, err := c1.Write(all[i : i+1]); err != nil {
								return
							}
						}
					case "split-in-header":
						k := 1 + n/2
						_, _ = c1.Write(all[:k])
						_, _ = c1.Write(all[k:])
					case "header-then-payload":
						_, _ = c1.Write(hdr)
						if len(p) > 0 {
							_, _ = c1.Write(p)
						}
					}
				}()
				conn, got, err := RemoveLabelHeaderFromStream(c2)
				if err != nil {
					l.Ok, l.Why = false, "remove: "+err.Error()
					_ = c2.Close()
				} else {
					rest, rerr := io.ReadAll(conn)
					if got != label || !bytes.Equal(rest, p) {
						l.Ok, l.Why = false, fmt.Sprintf("label ok=%v payload ok=%v (%d of %d bytes, err=%v)", got == label, bytes.Equal(rest, p), len(rest), len(p), rerr)
					}
					_ = conn.Close()
				}
				emit(l)
			}
		}
	}
	// no label: nothing is added and nothing is removed
	for pc, p := range payloads {
		l := vCodecLine{Kind: "packet", LabelLen: 0, Payload: pc, Frag: "-", Ok: true}
		buf, err := AddLabelHeaderToPacket(p, "")
		if err != nil || !bytes.Equal(buf, p) {
			l.Ok, l.Why = false, "an empty label changed the packet"
		}
		if pc != "magic-first" {
			rest, got, err := RemoveLabelHeaderFromPacket(p)
			if err != nil || got != "" || !bytes.Equal(rest, p) {
				l.Ok, l.Why = false, "unlabelled packet was changed by removal"
			}
		}
		emit(l)
	}
}

func TestVerifWireCases(t *testing.T) {
	cases, trace := os.Getenv("VERIF_CASES"), os.Getenv("VERIF_TRACE")
	if cases == "" || trace == "" {
		t.Skip("VERIF_CASES / VERIF_TRACE not set")
	}
	shard, nshard := 0, 1
	if v := os.Getenv("VERIF_SHARD"); v != "" {
		fmt.Sscanf(v, "%d/%d", &shard, &nshard)
	}
	journal := os.Getenv("VERIF_JOURNAL")
	skipTo := 0
	if v := os.Getenv("VERIF_RESUME"); v != "" {
		fmt.Sscanf(v, "%d", &skipTo)
	}
	f, err := os.Open(cases)
	if err != nil {
		t.Fatal(err)
	}
	defer f.Close()
	out, err := os.OpenFile(trace, os.O_CREATE|os.O_WRONLY|os.O_APPEND, 0o644)
	if err != nil {
		t.Fatal(err)
	}
	defer out.Close()
	w := bufio.NewWriter(out)
	sc := bufio.NewScanner(f)
	sc.Buffer(make([]byte, 1<<20), 1<<24)
	var all []vWCase
	var ids []int
	idx := 0
	for sc.Scan() {
		idx++
		if (idx-1)%nshard != shard || idx <= skipTo {
			continue
		}
		var c vWCase
		if err := json.Unmarshal(sc.Bytes(), &c); err != nil {
			t.Fatalf("case %d: %v", idx, err)
		}
		all = append(all, c)
		ids = append(ids, idx)
	}
	const batch = 100
	for lo := 0; lo < len(all); lo += batch {
		hi := min(lo+batch, len(all))
		synctest.Test(t, func(t *testing.T) {
			s, err := vOpenSink("")
			if err != nil {
				t.Fatal(err)
			}
			for i := lo; i < hi; i++ {
				if journal != "" {
					_ = os.WriteFile(journal, []byte(fmt.Sprint(ids[i])), 0o644)
				}
				c := all[i]
				pads := []int{-1}
				if c.FixedPad {
					pads[0] = c.Pad
				} else if c.Compatible && c.Attack == "none" && c.Msg != "ping" && c.Msg != "indirect" && c.Msg != "tcpping" {
					// a message that must arrive is sent in every size modulo the cipher's block size
					for p := 0; p < 16; p++ {
						if p != vWPad(ids[i]) {
							pads = append(pads, p)
						}
					}
					if c.Path == "stream" {
						// ... and, on a stream, in sizes beyond one read of the stream reader and beyond 64 KiB
						pads = append(pads, 5000, 70000)
					}
				}
				for _, p := range pads {
					c.Pad = p
					l := vWRun(t, s, ids[i], c)
					b, _ := json.Marshal(l)
					w.Write(b)
					w.WriteByte('\n')
					for _, x := range vWExtra {
						b, _ := json.Marshal(x)
						w.Write(b)
						w.WriteByte('\n')
					}
					vWExtra = nil
					if p >= 5000 || (p == pads[0] && vWTiny(ids[i]) && c.Compatible && c.Attack == "none") {
						// the large and the smallest sizes also with the sender's compression setting flipped (an uncompressed,
						// unencrypted stream is read from the connection in pieces, a compressed or sealed one from memory;
						// a compressed message is never shorter than a cipher block)
						c2 := c
						c2.S.Comp = !c.S.Comp
						l := vWRun(t, s, ids[i], c2)
						b, _ := json.Marshal(l)
						w.Write(b)
						w.WriteByte('\n')
						for _, x := range vWExtra {
							b, _ := json.Marshal(x)
							w.Write(b)
							w.WriteByte('\n')
						}
						vWExtra = nil
					}
				}
				w.Flush()
			}
			_ = s.Close()
			time.Sleep(15 * time.Second)
			synctest.Wait()
		})
	}
	_ = strings.TrimSpace
	if p := os.Getenv("VERIF_SITES"); p != "" {
		vWSites.mu.Lock()
		var names []string
		for k := range vWSites.m {
			names = append(names, k)
		}
		vWSites.mu.Unlock()
		sort.Strings(names)
		_ = os.WriteFile(p, []byte(strings.Join(names, "\n")+"\n"), 0o644)
	}
}
