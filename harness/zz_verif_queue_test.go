//go:build verif

package memberlist

// Replay of operation sequences on the real TransmitLimitedQueue (DESIGN.md §5 C10).
// Sequences come from TLC (every sequence up to a depth over a small alphabet,
// VERIF_PATHS) and from a seeded random driver with larger domains.  Every call's
// result, the completion callbacks it triggered and NumQueued afterwards are
// recorded; TLC (spec/TraceQueue.tla) judges the recorded trace.

import (
	"bufio"
	"encoding/json"
	"fmt"
	"math/rand"
	"os"
	"strconv"
	"testing"
)

type vQOp struct {
	Op       string `json:"op"`
	Uid      string `json:"uid"`
	Kind     string `json:"kind"`
	Name     string `json:"name"`
	Len      int    `json:"len"`
	Overhead int    `json:"overhead"`
	Limit    int    `json:"limit"`
	N        int    `json:"n"`
	K        int    `json:"k"`
}

type vQPath struct {
	Mult int    `json:"mult"`
	Ops  []vQOp `json:"ops"`
}

type vQLine struct {
	Ev   string `json:"ev"`
	Case int    `json:"case"`
	I    int    `json:"i"`
	Mult int    `json:"mult"`
	vQOp
	Res   []string `json:"res"`
	Done  []string `json:"done"`
	Nq    int      `json:"nq"`
	Panic string   `json:"panic"`
}

// instrumented broadcasts: the payload's first bytes carry the uid so that results
// can be mapped back; Finished appends to the shared completion log
type vQB struct {
	uid  string
	msg  []byte
	log  *[]string
	name string
}

func (b *vQB) Message() []byte { return b.msg }
func (b *vQB) Finished()       { *b.log = append(*b.log, b.uid) }

type vQNamed struct{ vQB }

func (b *vQNamed) Name() string { return b.name }
func (b *vQNamed) Invalidates(o Broadcast) bool {
	nb, ok := o.(NamedBroadcast)
	return ok && nb.Name() == b.name
}

type vQUnique struct{ vQB }

func (b *vQUnique) Invalidates(o Broadcast) bool { return false }
func (b *vQUnique) UniqueBroadcast()             {}

type vQPlain struct{ vQB }

func (b *vQPlain) Invalidates(o Broadcast) bool {
	p, ok := o.(*vQPlain)
	return ok && p.name == b.name
}

func vQMsg(uid string, n int) []byte {
	b := make([]byte, n)
	copy(b, []byte(uid+"|"))
	return b
}

type vQRun struct {
	q     *TransmitLimitedQueue
	nn    int
	log   []string
	byMsg map[string]string
}

func vQNew(mult int) *vQRun {
	r := &vQRun{byMsg: map[string]string{}}
	r.q = &TransmitLimitedQueue{RetransmitMult: mult, NumNodes: func() int { return r.nn }}
	return r
}

func (r *vQRun) apply(op vQOp) (l vQLine) {
	l.vQOp = op
	l.Res, l.Done = []string{}, []string{}
	r.log = r.log[:0]
	defer func() {
		if p := recover(); p != nil {
			l.Panic = fmt.Sprint(p)
			if l.Panic == "" {
				l.Panic = "panic"
			}
		}
		l.Done = append([]string{}, r.log...)
		func() {
			defer func() {
				if p := recover(); p != nil {
					l.Nq = -1
				}
			}()
			l.Nq = r.q.NumQueued()
		}()
	}()
	switch op.Op {
	case "Q":
		base := vQB{uid: op.Uid, msg: []byte(op.Uid + "#" + string(make([]byte, 0))), log: &r.log, name: op.Name}
		// message of exactly op.Len bytes, unique per uid as far as the length allows
		m := make([]byte, op.Len)
		copy(m, []byte(op.Uid))
		base.msg = m
		var b Broadcast
		switch op.Kind {
		case "named":
			b = &vQNamed{base}
		case "unique":
			b = &vQUnique{base}
		default:
			b = &vQPlain{base}
		}
		r.byMsg[fmt.Sprintf("%p", &m[:1][0])] = op.Uid
		r.q.QueueBroadcast(b)
	case "G":
		r.nn = op.N
		out := r.q.GetBroadcasts(op.Overhead, op.Limit)
		for _, m := range out {
			uid := "?"
			if len(m) > 0 {
				if u, ok := r.byMsg[fmt.Sprintf("%p", &m[0])]; ok {
					uid = u
				}
			}
			l.Res = append(l.Res, uid)
		}
	case "P":
		r.q.Prune(op.K)
	case "R":
		r.q.Reset()
	}
	return l
}

func vQWrite(w *bufio.Writer, l vQLine) {
	b, _ := json.Marshal(l)
	w.Write(b)
	w.WriteByte('\n')
}

func TestVerifQueueReplay(t *testing.T) {
	paths, trace := os.Getenv("VERIF_PATHS"), os.Getenv("VERIF_TRACE")
	if paths == "" || trace == "" {
		t.Skip("VERIF_PATHS / VERIF_TRACE not set")
	}
	shard, nshard := 0, 1
	if v := os.Getenv("VERIF_SHARD"); v != "" {
		fmt.Sscanf(v, "%d/%d", &shard, &nshard)
	}
	f, err := os.Open(paths)
	if err != nil {
		t.Fatal(err)
	}
	defer f.Close()
	out, err := os.Create(trace)
	if err != nil {
		t.Fatal(err)
	}
	w := bufio.NewWriterSize(out, 1<<20)
	sc := bufio.NewScanner(f)
	sc.Buffer(make([]byte, 1<<20), 1<<24)
	idx, done := 0, 0
	for sc.Scan() {
		idx++
		if (idx-1)%nshard != shard {
			continue
		}
		var p vQPath
		if err := json.Unmarshal(sc.Bytes(), &p); err != nil {
			t.Fatalf("path %d: %v", idx, err)
		}
		r := vQNew(p.Mult)
		for i, op := range p.Ops {
			l := r.apply(op)
			l.Ev, l.Case, l.I, l.Mult = "QOp", idx, i+1, p.Mult
			vQWrite(w, l)
			if l.Panic != "" {
				break // the object is in an unknown state after a panic
			}
		}
		done++
	}
	w.Flush()
	out.Close()
	if p := os.Getenv("VERIF_STATS"); p != "" {
		os.WriteFile(p, []byte(fmt.Sprintf(`{"paths":%d}`, done)), 0o644)
	}
}

// TestVerifQueueRandom: seeded random operation sequences with larger domains
// (code -> specification direction).
func TestVerifQueueRandom(t *testing.T) {
	trace := os.Getenv("VERIF_TRACE")
	if trace == "" {
		t.Skip("VERIF_TRACE not set")
	}
	seed, _ := strconv.ParseInt(os.Getenv("VERIF_SEED"), 10, 64)
	count, _ := strconv.Atoi(os.Getenv("VERIF_COUNT"))
	if count == 0 {
		count = 2000
	}
	shard, nshard := 0, 1
	if v := os.Getenv("VERIF_SHARD"); v != "" {
		fmt.Sscanf(v, "%d/%d", &shard, &nshard)
	}
	rng := rand.New(rand.NewSource(seed*1000003 + int64(shard)))
	out, err := os.Create(trace)
	if err != nil {
		t.Fatal(err)
	}
	w := bufio.NewWriterSize(out, 1<<20)
	names := []string{"n0", "n1", "n2", "n3", "n4", "n5", "n6", "n7", "n8", "n9", "n10", "n11", ""}
	for c := 1; c <= count; c++ {
		mult := rng.Intn(5)
		r := vQNew(mult)
		nops := 4 + rng.Intn(28)
		sizes := []int{1, 2, 3, 5, 8, 8, 13, 21, 40}
		for i := 0; i < nops; i++ {
			var op vQOp
			switch x := rng.Intn(100); {
			case x < 50:
				op.Op = "Q"
				op.Uid = fmt.Sprintf("r%d", i)
				op.Len = sizes[rng.Intn(len(sizes))]
				switch rng.Intn(4) {
				case 0, 1:
					op.Kind, op.Name = "named", names[rng.Intn(len(names))]
				case 2:
					op.Kind = "unique"
				default:
					op.Kind, op.Name = "plain", "g"+strconv.Itoa(rng.Intn(3))
				}
			case x < 88:
				op.Op = "G"
				op.Overhead = rng.Intn(4)
				op.Limit = []int{0, 3, 8, 10, 16, 25, 50, 100, 1400}[rng.Intn(9)]
				op.N = []int{0, 1, 2, 9, 10, 11, 99, 100, 120}[rng.Intn(9)]
			case x < 96:
				op.Op = "P"
				op.K = rng.Intn(6) - 1
			default:
				op.Op = "R"
			}
			l := r.apply(op)
			l.Ev, l.Case, l.I, l.Mult = "QOp", c*nshard+shard, i+1, mult
			vQWrite(w, l)
			if l.Panic != "" {
				break
			}
		}
	}
	w.Flush()
	out.Close()
}
