//go:build verif

package memberlist

// Trace sink for the verification hooks (see /verif/DESIGN.md §4).
//
// One process hosts every simulated node, so one mutex-protected sink gives a
// total order of events that extends each node's lock order.  The sink never
// calls back into a Memberlist method that takes a lock: it is invoked while
// nodeLock is held and reads the protected fields directly.

import (
	"bufio"
	"bytes"
	"encoding/hex"
	"encoding/json"
	"fmt"
	"net"
	"net/netip"
	"os"
	"runtime"
	"sort"
	"strconv"
	"sync"
	"time"
)

// ---------------------------------------------------------------------------
// JSON shapes (field names are the ones the TLA+ trace specifications read)

type vRec struct {
	State   string `json:"state"`
	Inc     int64  `json:"inc"`
	Addr    string `json:"addr"`
	Port    int    `json:"port"`
	Meta    string `json:"meta"`
	Vsn     []int  `json:"vsn"`
	Changed int64  `json:"changed"`
}

type vTimer struct {
	On    bool     `json:"on"`
	K     int      `json:"k"`
	Min   int64    `json:"min"`
	Max   int64    `json:"max"`
	Start int64    `json:"start"`
	Conf  []string `json:"conf"`
	N     int      `json:"n"`
}

type vClaim struct {
	Node string `json:"node"`
	Inc  int64  `json:"inc"`
	From string `json:"from"`
	Addr string `json:"addr"`
	Port int    `json:"port"`
	Meta string `json:"meta"`
	Vsn  []int  `json:"vsn"`
	Kind string `json:"kind"`
}

type vBcast struct {
	Key    string `json:"key"`
	Type   string `json:"type"`
	Node   string `json:"node"`
	Inc    int64  `json:"inc"`
	From   string `json:"from"`
	Addr   string `json:"addr"`
	Port   int    `json:"port"`
	Meta   string `json:"meta"`
	Vsn    []int  `json:"vsn"`
	Notify bool   `json:"notify"`
}

type vEvent struct {
	Kind    string `json:"kind"`
	Name    string `json:"name"`
	Addr    string `json:"addr"`
	Port    int    `json:"port"`
	Meta    string `json:"meta"`
	Allowed bool   `json:"allowed"`
}

type vMember struct {
	Name string `json:"name"`
	Addr string `json:"addr"`
	Port int    `json:"port"`
	Meta string `json:"meta"`
}

type vCfg struct {
	Reclaim       int64  `json:"reclaim"`
	GossipDead    int64  `json:"gossipDead"`
	AllowOn       bool   `json:"allowOn"`
	AliveDelegate bool   `json:"aliveDelegate"`
	Mult          int    `json:"mult"`
	MaxMult       int    `json:"maxMult"`
	Interval      int64  `json:"interval"`
	Fillers       int    `json:"fillers"`
	VetoMeta      string `json:"vetoMeta"`
}

// vLine is one trace line.  Unused fields keep their zero values so that every
// line has the same shape (TLC compares records of equal shape without trouble).
type vLine struct {
	Ev   string `json:"ev"`
	G    int64  `json:"g"`    // global sequence number
	Case int    `json:"case"` // replay case the line belongs to (0 in simulations)
	N    string `json:"n"`
	T    int64  `json:"t"`
	Goid int64  `json:"-"`

	// NodeOp
	Op          string    `json:"op"`
	Via         string    `json:"via"`
	Boot        bool      `json:"boot"`
	Notify      bool      `json:"notify"`
	Claim       vClaim    `json:"claim"`
	Allowed     bool      `json:"allowed"`
	Filtered    bool      `json:"filtered"`
	Pre         vRec      `json:"pre"`
	Post        vRec      `json:"post"`
	Tpre        vTimer    `json:"tpre"`
	Tpost       vTimer    `json:"tpost"`
	IncPre      int64     `json:"incPre"`
	IncPost     int64     `json:"incPost"`
	Leave       bool      `json:"leave"`
	NnPre       int       `json:"nnPre"`
	NnPost      int       `json:"nnPost"`
	Bcast       []vBcast  `json:"bcast"`
	Events      []vEvent  `json:"events"`
	Conflict    bool      `json:"conflict"`
	Health      int       `json:"health"`
	Members     []vMember `json:"members"`
	MembersPre  []vMember `json:"membersPre"`
	PostAllowed bool      `json:"postAllowed"`
	Created     bool      `json:"created"`
	SelfState   string    `json:"selfState"`
	Exact       bool      `json:"exact"` // values are comparable with the model's arithmetic
	Cfg         vCfg      `json:"cfg"`

	// Reap
	Removed []string `json:"removed"`

	// UdpAlive
	SrcAllowed bool `json:"srcAllowed"`
	NodeOps    int  `json:"nodeOps"`

	// TimerFire / misc
	Node     string `json:"node"`
	Decision bool   `json:"decision"`
	Info     string `json:"info"`
	Age      int64  `json:"age"` // GossipPick / PushPullPick: ms since the picked member's record last changed state

	// simulation lines (SimInit, Crash, Restart, StopFaults, End, Api ...)
	Names []string `json:"names"`
	Views []vView  `json:"views"`
	Sim   vSimCfg  `json:"sim"`
	Call  string   `json:"call"`
	Res   string   `json:"res"`
}

type vView struct {
	N       string    `json:"n"`
	Members []vMember `json:"members"`
}

// vSimCfg: the configuration constants the cluster judge needs (times in ms)
type vSimCfg struct {
	N             int   `json:"nodes"`
	ProbeInterval int64 `json:"probeInterval"`
	ProbeTimeout  int64 `json:"probeTimeout"`
	AwMax         int   `json:"awMax"`
	SuspMult      int   `json:"suspMult"`
	MaxMult       int   `json:"maxMult"`
	PushPull      int64 `json:"pushPull"`
	GossipDead    int64 `json:"gossipDead"`
	TCPTimeout    int64 `json:"tcpTimeout"`
	MaxDelay      int64 `json:"maxDelay"`
	Healthy       bool  `json:"healthy"`
	Settle        int64 `json:"settle"`
}

var vNoRec = vRec{State: "absent", Vsn: []int{}}
var vNoTimer = vTimer{Conf: []string{}}

func vBlankLine(ev string) *vLine {
	return &vLine{Ev: ev, Pre: vNoRec, Post: vNoRec, Tpre: vNoTimer, Tpost: vNoTimer,
		Claim: vClaim{Vsn: []int{}}, Bcast: []vBcast{}, Events: []vEvent{}, Members: []vMember{}, MembersPre: []vMember{},
		Removed: []string{}, SelfState: "absent", Names: []string{}, Views: []vView{}}
}

// ---------------------------------------------------------------------------
// Per-node registration

type vNode struct {
	m          *Memberlist
	name       string
	cfg        vCfg
	allow      []netip.Prefix // independent copy of the allowlist (nil = off)
	created    bool
	gossipSeen int
	vetoMeta   string
	labels     *vLabels
	// open brackets per goroutine (innermost last)
	open map[int64][]*vOpen
	// merge context per goroutine: remote state of the entry being merged, and its line
	mergeKind map[int64]string
	mergeLine map[int64]*vLine
	inEvent   int32
}

type vOpen struct {
	line    *vLine
	nodeOps int
	kind    string // "nodeop" | "reap" | "udpalive"
}

// vLabels maps concrete values back to the abstract labels of a replay case so
// that traces of generated behaviours are written in the model's vocabulary.
type vLabels struct {
	addr map[string]string // concrete ip string -> label
	meta map[string]string // concrete meta (raw) -> label
}

type vSink struct {
	mu       sync.Mutex
	w        *bufio.Writer
	f        *os.File
	g        int64
	epoch    time.Time
	nodes    map[*Memberlist]*vNode
	aware    map[*awareness]*vNode
	caseID   int
	lines    int
	exact    bool
	keep     func(*vLine) bool // optional filter
	mem      []*vLine          // in-memory copy when collect is set
	collect  bool
	onPacked func(m *Memberlist, overhead, limit int, msgs [][]byte)
}

var vs *vSink

func (n *vNode) push(gid int64, o *vOpen) { n.open[gid] = append(n.open[gid], o) }
func (n *vNode) top(gid int64) *vOpen {
	st := n.open[gid]
	if len(st) == 0 {
		return nil
	}
	return st[len(st)-1]
}
func (n *vNode) pop(gid int64, kind string) *vOpen {
	st := n.open[gid]
	if len(st) == 0 || st[len(st)-1].kind != kind {
		return nil
	}
	o := st[len(st)-1]
	if len(st) == 1 {
		delete(n.open, gid)
	} else {
		n.open[gid] = st[:len(st)-1]
	}
	return o
}

func vGoid() int64 {
	var buf [64]byte
	n := runtime.Stack(buf[:], false)
	// "goroutine 123 ["
	b := buf[10:n]
	i := bytes.IndexByte(b, ' ')
	if i < 0 {
		return -1
	}
	id, _ := strconv.ParseInt(string(b[:i]), 10, 64)
	return id
}

func vOpenSink(path string) (*vSink, error) {
	s := &vSink{nodes: map[*Memberlist]*vNode{}, aware: map[*awareness]*vNode{}, exact: true}
	if path != "" {
		f, err := os.Create(path)
		if err != nil {
			return nil, err
		}
		s.f = f
		s.w = bufio.NewWriterSize(f, 1<<20)
	}
	s.epoch = time.Now()
	vs = s
	verifSink = s.hook
	verifAware = s.hookAware
	return s, nil
}

func (s *vSink) Close() error {
	verifSink = nil
	verifAware = nil
	verifGate = nil
	s.mu.Lock()
	defer s.mu.Unlock()
	if s.w != nil {
		if err := s.w.Flush(); err != nil {
			return err
		}
		return s.f.Close()
	}
	return nil
}

func (s *vSink) now() int64 { return time.Since(s.epoch).Milliseconds() }

func (s *vSink) register(m *Memberlist, cfg vCfg, allow []string, vetoMeta string, labels *vLabels) *vNode {
	s.mu.Lock()
	defer s.mu.Unlock()
	n := &vNode{m: m, name: m.config.Name, cfg: cfg, open: map[int64][]*vOpen{}, mergeKind: map[int64]string{}, mergeLine: map[int64]*vLine{},
		vetoMeta: vetoMeta, labels: labels}
	if cfg.AllowOn {
		n.allow = []netip.Prefix{}
		for _, c := range allow {
			n.allow = append(n.allow, netip.MustParsePrefix(c))
		}
	}
	s.nodes[m] = n
	s.aware[m.awareness] = n
	return n
}

func (s *vSink) unregister(m *Memberlist) {
	s.mu.Lock()
	defer s.mu.Unlock()
	delete(s.aware, m.awareness)
	delete(s.nodes, m)
}

// emit must be called with s.mu held.
func (s *vSink) emit(l *vLine) {
	s.g++
	l.G = s.g
	l.Case = s.caseID
	l.Exact = s.exact
	if !s.exact {
		vRankIncs(l)
	}
	if s.keep != nil && !s.keep(l) {
		return
	}
	s.lines++
	if s.collect {
		s.mem = append(s.mem, l)
	}
	if s.w != nil {
		b, err := json.Marshal(l)
		if err != nil {
			panic(err)
		}
		s.w.Write(b)
		s.w.WriteByte('\n')
	}
}

// vRankIncs replaces the incarnation numbers of a line by their dense ranks (order and
// equality are preserved, which is all the property predicates look at).  Used for
// concretisations whose incarnations exceed the 32-bit integers of TLC.
func vRankIncs(l *vLine) {
	ptrs := []*int64{&l.Claim.Inc, &l.Pre.Inc, &l.Post.Inc, &l.IncPre, &l.IncPost}
	for i := range l.Bcast {
		ptrs = append(ptrs, &l.Bcast[i].Inc)
	}
	vals := map[int64]bool{}
	for _, p := range ptrs {
		vals[*p] = true
	}
	sorted := make([]int64, 0, len(vals))
	for v := range vals {
		sorted = append(sorted, v)
	}
	sort.Slice(sorted, func(i, j int) bool { return sorted[i] < sorted[j] })
	rank := map[int64]int64{}
	for i, v := range sorted {
		rank[v] = int64(i)
	}
	for _, p := range ptrs {
		*p = rank[*p]
	}
}

// Emit writes a harness-made line (Api, Clock, Reset, ...).
func (s *vSink) Emit(l *vLine) {
	s.mu.Lock()
	defer s.mu.Unlock()
	if l.T == 0 {
		l.T = s.now()
	}
	s.emit(l)
}

// ---------------------------------------------------------------------------
// Independent oracles

// vAllowed is the harness's own reading of the allowlist: an address is allowed
// iff it is a well-formed IPv4/IPv6 address (IPv4-mapped IPv6 counts as IPv4)
// inside one of the configured networks.  It does not call Config.IPAllowed.
func (n *vNode) allowed(ip []byte) bool {
	if n.allow == nil {
		return true
	}
	a, ok := netip.AddrFromSlice(ip)
	if !ok {
		return false
	}
	a = a.Unmap()
	for _, p := range n.allow {
		if p.Contains(a) {
			return true
		}
	}
	return false
}

func vBadVsn(v []uint8) bool {
	return len(v) >= 3 && (v[0] == 0 || v[1] == 0 || v[0] > v[1])
}

// ---------------------------------------------------------------------------
// Projections (called with nodeLock held by the hooked goroutine)

func vStateName(t NodeStateType) string {
	switch t {
	case StateAlive:
		return "alive"
	case StateSuspect:
		return "suspect"
	case StateDead:
		return "dead"
	case StateLeft:
		return "left"
	}
	return fmt.Sprintf("state-%d", int(t))
}

func vInts(b []uint8) []int {
	out := make([]int, len(b))
	for i, x := range b {
		out[i] = int(x)
	}
	return out
}

func (n *vNode) addrStr(ip []byte) string {
	if n.labels != nil {
		if l, ok := n.labels.addr[net.IP(ip).String()]; ok {
			return l
		}
	}
	if len(ip) == 0 {
		return ""
	}
	if len(ip) == 4 || len(ip) == 16 {
		return net.IP(ip).String()
	}
	return "raw:" + hex.EncodeToString(ip)
}

func (n *vNode) metaStr(b []byte) string {
	if len(b) == 0 {
		return ""
	}
	if n.labels != nil {
		if l, ok := n.labels.meta[string(b)]; ok {
			return l
		}
	}
	if len(b) <= 24 {
		ok := true
		for _, c := range b {
			if c < 0x20 || c > 0x7e || c == '"' || c == '\\' {
				ok = false
				break
			}
		}
		if ok {
			return string(b)
		}
	}
	return "hex:" + hex.EncodeToString(b[:min(len(b), 8)]) + fmt.Sprintf(":%d", len(b))
}

func (s *vSink) ms(t time.Time) int64 {
	if t.IsZero() {
		return -1
	}
	return t.Sub(s.epoch).Milliseconds()
}

func (s *vSink) recOf(n *vNode, name string) vRec {
	st, ok := n.m.nodeMap[name]
	if !ok {
		return vNoRec
	}
	return vRec{State: vStateName(st.State), Inc: int64(st.Incarnation), Addr: n.addrStr(st.Addr), Port: int(st.Port),
		Meta: n.metaStr(st.Meta), Vsn: []int{int(st.PMin), int(st.PMax), int(st.PCur), int(st.DMin), int(st.DMax), int(st.DCur)},
		Changed: s.ms(st.StateChange)}
}

func (s *vSink) timerOf(n *vNode, name string) vTimer {
	t, ok := n.m.nodeTimers[name]
	if !ok {
		return vNoTimer
	}
	conf := make([]string, 0, len(t.confirmations))
	for c := range t.confirmations {
		conf = append(conf, c)
	}
	sort.Strings(conf)
	// the accuser is the first entry of the confirmation map (it never counts)
	return vTimer{On: true, K: int(t.k), Min: t.min.Milliseconds(), Max: t.max.Milliseconds(),
		Start: s.ms(t.start), Conf: conf, N: int(t.n.Load())}
}

func (s *vSink) membersOf(n *vNode) []vMember {
	out := make([]vMember, 0, len(n.m.nodes))
	for _, st := range n.m.nodes {
		if st.State == StateDead || st.State == StateLeft {
			continue
		}
		out = append(out, vMember{Name: st.Name, Addr: n.addrStr(st.Addr), Port: int(st.Port), Meta: n.metaStr(st.Meta)})
	}
	sort.Slice(out, func(i, j int) bool { return out[i].Name < out[j].Name })
	return out
}

func (s *vSink) selfState(n *vNode) string {
	st, ok := n.m.nodeMap[n.name]
	if !ok {
		return "absent"
	}
	return vStateName(st.State)
}

// ---------------------------------------------------------------------------
// The hook

func (s *vSink) hook(m *Memberlist, ev string, kv ...any) {
	if ev == "packed" {
		if f := s.onPacked; f != nil {
			f(m, kv[0].(int), kv[1].(int), kv[2].([][]byte))
		}
		return
	}
	gid := vGoid()
	// a push/pull entry is announced outside the node lock: take the snapshot of the
	// subject's record first (lock order: nodeLock before the sink's mutex)
	var mergePre *nodeState
	var mergeInc uint32
	if ev == "merge.entry" {
		r := kv[0].(pushNodeState)
		m.nodeLock.RLock()
		if st, ok := m.nodeMap[r.Name]; ok {
			cp := *st
			mergePre = &cp
		}
		mergeInc = m.incarnation.Load()
		m.nodeLock.RUnlock()
	}
	s.mu.Lock()
	defer s.mu.Unlock()
	n, ok := s.nodes[m]
	if !ok {
		return
	}
	switch ev {
	case "alive.begin", "suspect.begin", "dead.begin":
		l := vBlankLine("NodeOp")
		l.N, l.T, l.Goid = n.name, s.now(), gid
		l.Via = "direct"
		if k, ok := n.mergeKind[gid]; ok {
			l.Via = "merge"
			l.Claim.Kind = k
		}
		switch ev {
		case "alive.begin":
			a := kv[0].(*alive)
			l.Op = "alive"
			l.Boot = kv[1].(bool)
			l.Notify = kv[2].(bool)
			l.Claim = vClaim{Node: a.Node, Inc: int64(a.Incarnation), Addr: n.addrStr(a.Addr), Port: int(a.Port),
				Meta: n.metaStr(a.Meta), Vsn: vInts(a.Vsn), Kind: "alive"}
			l.Allowed = n.allowed(a.Addr)
			l.Filtered = vBadVsn(a.Vsn) || (n.cfg.AliveDelegate && (len(a.Vsn) < 6 || (n.vetoMeta != "" && string(a.Meta) == n.vetoMeta)))
			if l.Boot {
				l.Via = "api"
			}
		case "suspect.begin":
			x := kv[0].(*suspect)
			l.Op = "suspect"
			kind := "suspect"
			if l.Via == "merge" {
				kind = l.Claim.Kind
			}
			l.Claim = vClaim{Node: x.Node, Inc: int64(x.Incarnation), From: x.From, Vsn: []int{}, Kind: kind}
			l.Allowed = true
		case "dead.begin":
			x := kv[0].(*dead)
			l.Op = "dead"
			kind := "dead"
			if l.Via == "merge" {
				kind = l.Claim.Kind
			}
			l.Claim = vClaim{Node: x.Node, Inc: int64(x.Incarnation), From: x.From, Vsn: []int{}, Kind: kind}
			l.Allowed = true
		}
		if n.pop(gid, "timer") != nil {
			l.Via = "timer"
		}
		if v := n.top(gid); v != nil && v.kind == "udpalive" {
			v.nodeOps++
			l.Via = "udp"
		}
		if ml, ok := n.mergeLine[gid]; ok {
			ml.NodeOps++
		}
		l.Pre = s.recOf(n, l.Claim.Node)
		l.Tpre = s.timerOf(n, l.Claim.Node)
		l.IncPre = int64(m.incarnation.Load())
		l.Leave = m.leave.Load() == 1
		l.NnPre = int(m.numNodes.Load())
		l.MembersPre = s.membersOf(n)
		n.push(gid, &vOpen{line: l, kind: "nodeop"})

	case "alive.end", "suspect.end", "dead.end":
		o := n.pop(gid, "nodeop")
		if o == nil {
			return
		}
		l := o.line
		l.Post = s.recOf(n, l.Claim.Node)
		l.Tpost = s.timerOf(n, l.Claim.Node)
		l.IncPost = int64(m.incarnation.Load())
		l.NnPost = int(m.numNodes.Load())
		l.Members = s.membersOf(n)
		l.SelfState = s.selfState(n)
		l.Created = n.created
		l.Cfg = n.cfg
		l.PostAllowed = true
		if st, ok := m.nodeMap[l.Claim.Node]; ok {
			l.PostAllowed = n.allowed(st.Addr)
		}
		s.emit(l)

	case "reap.begin":
		l := vBlankLine("Reap")
		l.N, l.T, l.Goid = n.name, s.now(), gid
		l.Leave = m.leave.Load() == 1
		for name := range m.nodeMap {
			l.Removed = append(l.Removed, name)
		}
		l.MembersPre = s.membersOf(n)
		n.push(gid, &vOpen{line: l, kind: "reap"})
	case "reap.end":
		o := n.pop(gid, "reap")
		if o == nil {
			return
		}
		l := o.line
		var gone []string
		for _, name := range l.Removed {
			if _, ok := m.nodeMap[name]; !ok {
				gone = append(gone, name)
			}
		}
		sort.Strings(gone)
		l.Removed = gone
		if l.Removed == nil {
			l.Removed = []string{}
		}
		l.NnPost = int(m.numNodes.Load())
		l.Members = s.membersOf(n)
		l.SelfState = s.selfState(n)
		l.Created = n.created
		l.Cfg = n.cfg
		s.emit(l)

	case "bcast":
		o := n.top(gid)
		b := s.decodeBcast(n, kv[0].(string), kv[1].([]byte), kv[2].(bool))
		if o != nil && o.kind == "nodeop" {
			o.line.Bcast = append(o.line.Bcast, b)
		} else {
			l := vBlankLine("StrayBcast")
			l.N, l.T = n.name, s.now()
			l.Bcast = []vBcast{b}
			s.emit(l)
		}

	case "refute":
		// the NodeOp's own incPre/incPost carry the information

	case "timerfire":
		l := vBlankLine("TimerFire")
		l.N, l.T = n.name, s.now()
		l.Node = kv[0].(string)
		l.Decision = kv[1].(bool)
		l.NodeOps = kv[2].(int)
		l.Pre = s.recOf(n, l.Node)
		l.Tpre = s.timerOf(n, l.Node)
		l.Cfg = n.cfg
		s.emit(l)
		if l.Decision {
			n.push(gid, &vOpen{kind: "timer"})
		}

	case "probe.pick":
		st := kv[0].(*nodeState)
		l := vBlankLine("ProbePick")
		l.N, l.T = n.name, s.now()
		l.Node = st.Name
		l.Info = vStateName(st.State)
		s.emit(l)

	case "gossip.pick", "pushpull.pick":
		// (the node lock is read-held by the hooked goroutine: the records cannot change under us)
		kind := map[string]string{"gossip.pick": "GossipPick", "pushpull.pick": "PushPullPick"}[ev]
		for _, nd := range kv[0].([]Node) {
			st, ok := m.nodeMap[nd.Name]
			info, age := "absent", int64(0)
			if ok {
				info, age = vStateName(st.State), time.Since(st.StateChange).Milliseconds()
			}
			if kind == "GossipPick" && info == "alive" {
				// gossip to members held alive is the common case: one line in 64 is enough
				n.gossipSeen++
				if n.gossipSeen%64 != 1 {
					continue
				}
			}
			l := vBlankLine(kind)
			l.N, l.T = n.name, s.now()
			l.Node, l.Info, l.Age = nd.Name, info, age
			l.Cfg = n.cfg
			s.emit(l)
		}

	case "merge.entry":
		if ml, ok := n.mergeLine[gid]; ok {
			s.emit(ml)
		}
		r := kv[0].(pushNodeState)
		kind := vStateName(r.State)
		n.mergeKind[gid] = kind
		l := vBlankLine("MergeEntry")
		l.N, l.T = n.name, s.now()
		l.Via = "merge"
		l.Op = map[string]string{"alive": "alive", "left": "dead", "dead": "suspect", "suspect": "suspect"}[kind]
		l.Claim = vClaim{Node: r.Name, Inc: int64(r.Incarnation), Addr: n.addrStr(r.Addr), Port: int(r.Port),
			Meta: n.metaStr(r.Meta), Vsn: vInts(r.Vsn), Kind: kind}
		if kind == "left" {
			l.Claim.From = r.Name
		} else if kind != "alive" {
			l.Claim.From = n.name
		}
		l.Allowed = n.allowed(r.Addr)
		l.Filtered = kind == "alive" && (vBadVsn(r.Vsn) || (n.cfg.AliveDelegate && (len(r.Vsn) < 6 || (n.vetoMeta != "" && string(r.Meta) == n.vetoMeta))))
		if mergePre != nil {
			st := mergePre
			l.Pre = vRec{State: vStateName(st.State), Inc: int64(st.Incarnation), Addr: n.addrStr(st.Addr), Port: int(st.Port),
				Meta: n.metaStr(st.Meta), Vsn: []int{int(st.PMin), int(st.PMax), int(st.PCur), int(st.DMin), int(st.DMax), int(st.DCur)},
				Changed: s.ms(st.StateChange)}
		}
		l.IncPre = int64(mergeInc)
		l.Leave = m.leave.Load() == 1
		l.Created = n.created
		l.Cfg = n.cfg
		n.mergeLine[gid] = l
	case "merge.done":
		if ml, ok := n.mergeLine[gid]; ok {
			s.emit(ml)
			delete(n.mergeLine, gid)
		}
		delete(n.mergeKind, gid)

	case "udpalive.begin":
		l := vBlankLine("UdpAlive")
		l.N, l.T = n.name, s.now()
		from := kv[0].(net.Addr)
		l.Info = from.String()
		l.SrcAllowed = true
		if n.allow != nil && from.String() != "pipe" {
			l.SrcAllowed = false
			if ap, err := netip.ParseAddrPort(from.String()); err == nil {
				l.SrcAllowed = n.allowed(ap.Addr().AsSlice())
			}
		}
		l.Cfg = n.cfg
		n.push(gid, &vOpen{line: l, kind: "udpalive"})
	case "udpalive.end":
		o := n.pop(gid, "udpalive")
		if o == nil {
			return
		}
		o.line.NodeOps = o.nodeOps
		s.emit(o.line)
	}
}

func (s *vSink) hookAware(a *awareness, delta, before, after int) {
	gid := vGoid()
	s.mu.Lock()
	defer s.mu.Unlock()
	n, ok := s.aware[a]
	if !ok {
		return
	}
	o := n.top(gid)
	if o != nil && o.kind == "nodeop" {
		o.line.Health += delta
	}
	l := vBlankLine("Health")
	l.N, l.T = n.name, s.now()
	l.Health = delta
	l.IncPre, l.IncPost = int64(before), int64(after)
	if o != nil && o.kind == "nodeop" {
		l.Info = "refute"
	}
	s.emit(l)
}

func (s *vSink) decodeBcast(n *vNode, key string, msg []byte, notify bool) vBcast {
	b := vBcast{Key: key, Notify: notify, Vsn: []int{}}
	if len(msg) == 0 {
		b.Type = "empty"
		return b
	}
	// the queue key of a refutation is the address string
	if n.labels != nil {
		if l, ok := n.labels.addr[key]; ok {
			b.Key = l
		}
	}
	switch messageType(msg[0]) {
	case aliveMsg:
		var a alive
		if err := decode(msg[1:], &a); err == nil {
			b.Type, b.Node, b.Inc = "alive", a.Node, int64(a.Incarnation)
			b.Addr, b.Port, b.Meta, b.Vsn = n.addrStr(a.Addr), int(a.Port), n.metaStr(a.Meta), vInts(a.Vsn)
		} else {
			b.Type = "undecodable"
		}
	case suspectMsg:
		var x suspect
		if err := decode(msg[1:], &x); err == nil {
			b.Type, b.Node, b.Inc, b.From = "suspect", x.Node, int64(x.Incarnation), x.From
		} else {
			b.Type = "undecodable"
		}
	case deadMsg:
		var x dead
		if err := decode(msg[1:], &x); err == nil {
			b.Type, b.Node, b.Inc, b.From = "dead", x.Node, int64(x.Incarnation), x.From
		} else {
			b.Type = "undecodable"
		}
	default:
		b.Type = fmt.Sprintf("type-%d", msg[0])
	}
	return b
}

// ---------------------------------------------------------------------------
// Delegates that write into the sink

type vEventDelegate struct {
	s *vSink
	m **Memberlist
}

// vOverlapHook, when set, runs at the start of every delegate callback, before the sink takes its own lock: the
// overlap mode of the view replay uses it to deliver a second claim while the first is inside a callback
var vOverlapHook func()

func (d *vEventDelegate) note(kind string, nd *Node) {
	if h := vOverlapHook; h != nil {
		h()
	}
	gid := vGoid()
	s := d.s
	s.mu.Lock()
	defer s.mu.Unlock()
	n, ok := s.nodes[*d.m]
	if !ok {
		return
	}
	e := vEvent{Kind: kind, Name: nd.Name, Addr: n.addrStr(nd.Addr), Port: int(nd.Port), Meta: n.metaStr(nd.Meta),
		Allowed: n.allowed(nd.Addr)}
	n.inEvent++
	if n.inEvent > 1 {
		l := vBlankLine("EventOverlap")
		l.N, l.T = n.name, s.now()
		s.emit(l)
	}
	if o := n.top(gid); o != nil && (o.kind == "nodeop" || o.kind == "reap") {
		o.line.Events = append(o.line.Events, e)
	} else {
		l := vBlankLine("StrayEvent")
		l.N, l.T = n.name, s.now()
		l.Events = []vEvent{e}
		s.emit(l)
	}
	n.inEvent--
}

func (d *vEventDelegate) NotifyJoin(n *Node)   { d.note("join", n) }
func (d *vEventDelegate) NotifyLeave(n *Node)  { d.note("leave", n) }
func (d *vEventDelegate) NotifyUpdate(n *Node) { d.note("update", n) }

type vConflictDelegate struct {
	s *vSink
	m **Memberlist
}

func (d *vConflictDelegate) NotifyConflict(existing, other *Node) {
	if h := vOverlapHook; h != nil {
		h()
	}
	gid := vGoid()
	s := d.s
	s.mu.Lock()
	defer s.mu.Unlock()
	n, ok := s.nodes[*d.m]
	if !ok {
		return
	}
	if o := n.top(gid); o != nil && o.kind == "nodeop" {
		o.line.Conflict = true
	}
}

type vAliveDelegate struct {
	veto string
}

func (d *vAliveDelegate) NotifyAlive(peer *Node) error {
	if h := vOverlapHook; h != nil {
		h()
	}
	if d.veto != "" && string(peer.Meta) == d.veto {
		return fmt.Errorf("vetoed")
	}
	return nil
}

// vMetaDelegate supplies node metadata and user state.
type vMetaDelegate struct {
	mu   sync.Mutex
	meta []byte
	slow time.Duration // time the application takes to handle one user message
	got  int
}

func (d *vMetaDelegate) NodeMeta(limit int) []byte {
	d.mu.Lock()
	defer d.mu.Unlock()
	return d.meta
}
func (d *vMetaDelegate) set(b []byte) {
	d.mu.Lock()
	d.meta = b
	d.mu.Unlock()
}
func (d *vMetaDelegate) NotifyMsg([]byte) {
	d.mu.Lock()
	d.got++
	slow := d.slow
	d.mu.Unlock()
	if slow > 0 {
		time.Sleep(slow)
	}
}
func (d *vMetaDelegate) GetBroadcasts(overhead, limit int) [][]byte { return nil }
func (d *vMetaDelegate) LocalState(join bool) []byte                { return nil }
func (d *vMetaDelegate) MergeRemoteState(buf []byte, join bool)     {}
