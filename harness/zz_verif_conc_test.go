//go:build verif

package memberlist

// Concurrency cases (spec/Conc.tla, DESIGN.md §5 C20 / C17): every pair of operations that, by the
// locking discipline transcribed in the model, share an object with a write is executed concurrently
// on a real node of a real three-node cluster (simnet, REAL time, short intervals, no sink: nothing
// of the harness orders the goroutines of the node), in a binary built with the Go race detector.
// What the detector wrote while the case ran (GORACE log_path) is attached to the case's line:
// the number of reports and, per report, the innermost library function of each of the two
// conflicting accesses.  TLC (TraceConc) judges the lines.

import (
	"bufio"
	"encoding/json"
	"fmt"
	"io"
	"log"
	"net"
	"os"
	"path/filepath"
	"regexp"
	"runtime"
	"sort"
	"strings"
	"sync"
	"sync/atomic"
	"testing"
	"time"
)

type vCCase struct {
	A          string   `json:"a"`
	B          string   `json:"b"`
	Objs       []string `json:"objs"`
	ExpectRace bool     `json:"expectRace"`
}

type vCLine struct {
	Ev       string   `json:"ev"`
	Prop     string   `json:"prop"` // the property the run serves (C20, C17: races and deadlocks; C04: deadlocks in healthy activity)
	Case     int      `json:"case"`
	A        string   `json:"a"`
	B        string   `json:"b"`
	ItersA   int      `json:"itersA"`
	ItersB   int      `json:"itersB"`
	Races    int      `json:"races"`
	Pairs    []string `json:"pairs"`   // "funcX~funcY" (sorted), innermost library frames of the two accesses
	Harness  int      `json:"harness"` // reports whose two accesses are both in harness code (not judged)
	Pan      string   `json:"pan"`
	Stuck    []string `json:"stuck"`    // library functions in which goroutines waited for a mutex at two looks 8 s apart
	Detector bool     `json:"detector"` // the binary was built with the race detector and its log is readable
	Expect   bool     `json:"expect"`
}

var vCKeys = [][]byte{
	[]byte("0123456789abcdef"), []byte("fedcba9876543210"), []byte("0123456789abcdef01234567"),
}

type vCCluster struct {
	nw       *vNet
	N, P, Q  *Memberlist
	mdN, mdQ *vMetaDelegate
	trN      *vSimTransport
	ring     *Keyring
	stop     chan struct{}
	wg       sync.WaitGroup
	metaCtr  atomic.Int64
}

func vConcConf(name string, tr *vSimTransport, d Delegate, ring *Keyring) *Config {
	c := DefaultLANConfig()
	c.Name = name
	c.BindPort, c.AdvertisePort = 7946, 7946
	c.Logger = log.New(io.Discard, "", 0)
	c.ProbeInterval = 20 * time.Millisecond
	c.ProbeTimeout = 8 * time.Millisecond
	c.GossipInterval = 5 * time.Millisecond
	c.PushPullInterval = 60 * time.Millisecond
	c.GossipToTheDeadTime = 200 * time.Millisecond
	c.TCPTimeout = 5 * time.Second
	c.SuspicionMult = 1
	c.Transport = tr
	c.Delegate = d
	c.Keyring = ring
	return c
}

func vConcCluster(id int) (*vCCluster, error) {
	c := &vCCluster{nw: vNewNet(int64(id)), mdN: &vMetaDelegate{}, mdQ: &vMetaDelegate{}, stop: make(chan struct{})}
	c.mdN.set([]byte("n-0"))
	c.mdQ.set([]byte("q-0"))
	c.nw.setFaults(vNetFaults{MinDelay: 200 * time.Microsecond, Jitter: 500 * time.Microsecond})
	mk := func(name string, ip net.IP, d Delegate) (*Memberlist, *vSimTransport, *Keyring) {
		ring, err := NewKeyring([][]byte{vCKeys[0], vCKeys[1]}, vCKeys[0])
		if err != nil {
			panic(err)
		}
		tr := c.nw.attach(name, ip, 7946)
		m, err := Create(vConcConf(name, tr, d, ring))
		if err != nil {
			panic(err)
		}
		return m, tr, ring
	}
	c.N, c.trN, c.ring = mk("node", net.IPv4(10, 0, 0, 1).To4(), c.mdN)
	c.P, _, _ = mk("peer", net.IPv4(10, 0, 0, 2).To4(), &vMetaDelegate{})
	c.Q, _, _ = mk("quux", net.IPv4(10, 0, 0, 3).To4(), c.mdQ)
	for _, m := range []*Memberlist{c.P, c.Q} {
		var err error
		for try := 0; try < 5; try++ { // a busy machine: the exchange may time out
			if _, err = m.Join([]string{"10.0.0.1:7946"}); err == nil {
				break
			}
			time.Sleep(20 * time.Millisecond)
		}
		if err != nil {
			return nil, fmt.Errorf("conc: join: %v", err)
		}
	}
	return c, nil
}

var vReGoroutine = regexp.MustCompile(`(?m)^goroutine (\d+) \[(sync\.(?:RW)?Mutex\.(?:R)?Lock)[^\]]*\]:\n((?:.+\n)+)`)

// vConcMutexWaiters: goroutine id -> innermost library function, for every goroutine waiting for a mutex
func vConcMutexWaiters() map[string]string {
	buf := make([]byte, 8<<20)
	buf = buf[:runtime.Stack(buf, true)]
	out := map[string]string{}
	for _, g := range vReGoroutine.FindAllStringSubmatch(string(buf), -1) {
		for _, f := range regexp.MustCompile(`(?m)^(\S+)\(.*\)\n\t(\S+):\d+`).FindAllStringSubmatch(g[3], -1) {
			fn, file := f[1], filepath.Base(f[2])
			if strings.Contains(fn, "hashicorp/memberlist.") && !strings.HasPrefix(file, "zz_verif_") {
				out[g[1]] = fn[strings.LastIndex(fn, "memberlist.")+len("memberlist."):]
				break
			}
		}
	}
	return out
}

// close stops the two loops and the cluster
func (c *vCCluster) close() {
	close(c.stop)
	c.wg.Wait()
	for _, m := range []*Memberlist{c.N, c.P, c.Q} {
		func() {
			defer func() { recover() }()
			m.Shutdown()
		}()
	}
	time.Sleep(30 * time.Millisecond)
}

// goroutines left waiting by abandoned cases
var vConcAbandoned = map[string]bool{}

// vConcWatch runs body and looks at the process every 2 s: goroutines that wait for a mutex inside the library at
// looks at least 8 s apart (critical sections last microseconds) are a deadlock.  The case is then abandoned as it is.
func vConcWatch(body func()) (stuck []string) {
	done := make(chan struct{})
	go func() { defer close(done); body() }()
	var first map[string]string
	var firstAt time.Time
	for {
		select {
		case <-done:
			return nil
		case <-time.After(2 * time.Second):
		}
		cur := vConcMutexWaiters()
		for g := range cur {
			if vConcAbandoned[g] {
				delete(cur, g)
			}
		}
		if first != nil {
			for g, fn := range first {
				if cur[g] != fn {
					delete(first, g)
				}
			}
		}
		if len(first) == 0 {
			first, firstAt = cur, time.Now()
			continue
		}
		if time.Since(firstAt) >= 8*time.Second {
			seen := map[string]bool{}
			for g, fn := range first {
				vConcAbandoned[g] = true
				if !seen[fn] {
					seen[fn] = true
					stuck = append(stuck, fn)
				}
			}
			for g := range cur {
				vConcAbandoned[g] = true
			}
			sort.Strings(stuck)
			return stuck
		}
	}
}

var vConcSinkBytes int

// what a caller does with a node it was handed
func vConcReadNode(n *Node) {
	if n == nil {
		return
	}
	vConcSinkBytes += len(n.Name) + len(n.Addr) + int(n.Port) + len(n.Meta) + int(n.State) + int(n.PMax) + int(n.DCur)
	if len(n.Meta) > 0 {
		vConcSinkBytes += int(n.Meta[0])
	}
}

// op returns the body of one iteration of operation `what` on the node under test; terminal operations
// (Leave, Shutdown) may be repeated: they are documented as idempotent
func (c *vCCluster) op(what string) func() {
	N := c.N
	peerNode := func() *Node {
		for _, n := range N.Members() {
			if n.Name != "node" {
				return n
			}
		}
		return nil
	}
	switch what {
	case "Members":
		return func() { _ = len(N.Members()) }
	case "MembersRead":
		return func() {
			for _, n := range N.Members() {
				vConcReadNode(n)
			}
		}
	case "NumMembers":
		return func() { _ = N.NumMembers() }
	case "LocalNode":
		return func() { _ = N.LocalNode() }
	case "LocalNodeRead":
		return func() { vConcReadNode(N.LocalNode()) }
	case "UpdateNode":
		return func() {
			c.mdN.set([]byte(fmt.Sprintf("n-%d", c.metaCtr.Add(1))))
			_ = N.UpdateNode(5 * time.Millisecond)
		}
	case "Join":
		return func() { _, _ = N.Join([]string{"10.0.0.2:7946"}) }
	case "Leave":
		return func() { _ = N.Leave(5 * time.Millisecond) }
	case "Shutdown":
		return func() { _ = N.Shutdown() }
	case "GetHealthScore":
		return func() { _ = N.GetHealthScore() }
	case "SendBestEffort":
		return func() {
			if p := peerNode(); p != nil {
				_ = N.SendBestEffort(p, []byte("best-effort"))
			}
		}
	case "SendReliable":
		return func() {
			if p := peerNode(); p != nil {
				_ = N.SendReliable(p, []byte("reliable"))
			}
		}
	case "Ping":
		return func() { _, _ = N.Ping("peer", &net.UDPAddr{IP: net.IPv4(10, 0, 0, 2), Port: 7946}) }
	case "ProtocolVersion":
		return func() { _ = N.ProtocolVersion() }
	case "GetKeys":
		return func() { _ = len(c.ring.GetKeys()) }
	case "GetKeysRead":
		return func() {
			for _, k := range c.ring.GetKeys() {
				if len(k) > 0 {
					vConcSinkBytes += int(k[0])
				}
			}
		}
	case "GetPrimaryKey":
		return func() { _ = c.ring.GetPrimaryKey() }
	case "AddKey":
		return func() { _ = c.ring.AddKey(vCKeys[2]) }
	case "UseKey":
		var flip int
		return func() { flip++; _ = c.ring.UseKey(vCKeys[flip%2]) }
	case "RemoveKey":
		return func() { _ = c.ring.RemoveKey(vCKeys[2]); _ = c.ring.AddKey(vCKeys[2]) }
	// ---- protocol activities: driven from the peers, they run on the node's own goroutines
	case "BgPeerUpdate":
		return func() {
			c.mdQ.set([]byte(fmt.Sprintf("q-%d", c.metaCtr.Add(1))))
			_ = c.Q.UpdateNode(2 * time.Millisecond)
			time.Sleep(time.Millisecond)
		}
	case "BgAccuse":
		return func() {
			// the peer is told by a third party that the node is suspect: it gossips that, the node refutes
			s := suspect{Incarnation: c.N.incarnation.Load(), Node: "node", From: "quux"}
			c.P.suspectNode(&s)
			time.Sleep(2 * time.Millisecond)
		}
	case "BgFlap":
		var down bool
		return func() {
			down = !down
			if down {
				c.nw.partition(map[string]int{"quux": 1})
			} else {
				c.nw.partition(map[string]int{})
			}
			time.Sleep(40 * time.Millisecond)
		}
	case "BgSteady":
		return func() {
			if ns := c.P.Members(); len(ns) > 0 {
				for _, n := range ns {
					if n.Name == "node" {
						_ = c.P.SendBestEffort(n, []byte("hello"))
						_ = c.P.SendReliable(n, []byte("hello, reliably"))
					}
				}
			}
			time.Sleep(time.Millisecond)
		}
	}
	return nil
}

var (
	vReRace  = regexp.MustCompile(`(?m)^WARNING: DATA RACE$`)
	vReFrame = regexp.MustCompile(`(?m)^  (\S+)\(\)\n      (\S+):(\d+)`)
)

// vConcParse splits race reports and names, per report, the innermost library frame of the two accesses
func vConcParse(txt string) (pairs []string, harness int) {
	idx := vReRace.FindAllStringIndex(txt, -1)
	for i, at := range idx {
		end := len(txt)
		if i+1 < len(idx) {
			end = idx[i+1][0]
		}
		rep := txt[at[0]:end]
		// the two access stacks are the first two paragraphs after the header
		paras := strings.Split(rep, "\n\n")
		var names []string
		for _, p := range paras {
			if len(names) == 2 {
				break
			}
			head := strings.SplitN(p, "\n", 2)[0]
			if i := strings.Index(head, "WARNING: DATA RACE"); i >= 0 {
				p = strings.SplitN(p, "\n", 2)[1]
				head = strings.SplitN(p, "\n", 2)[0]
			}
			if !(strings.Contains(head, "rite at") || strings.Contains(head, "ead at")) {
				continue
			}
			name := "caller"
			for _, f := range vReFrame.FindAllStringSubmatch(p, -1) {
				fn, file := f[1], filepath.Base(f[2])
				if !strings.Contains(fn, "hashicorp/memberlist.") || strings.HasPrefix(file, "zz_verif_") {
					continue
				}
				name = fn[strings.LastIndex(fn, "memberlist.")+len("memberlist."):]
				break
			}
			names = append(names, name)
		}
		for len(names) < 2 {
			names = append(names, "caller")
		}
		if names[0] == "caller" && names[1] == "caller" {
			harness++
			continue
		}
		sort.Strings(names)
		pairs = append(pairs, names[0]+"~"+names[1])
	}
	return
}

func vConcLogRead(path string, off *int64) string {
	ms, _ := filepath.Glob(path + ".*")
	var sb strings.Builder
	var total int64
	for _, p := range ms {
		b, err := os.ReadFile(p)
		if err == nil {
			sb.Write(b)
			total += int64(len(b))
		}
	}
	s := sb.String()
	if int64(len(s)) < *off {
		*off = 0
	}
	out := s[*off:]
	*off = int64(len(s))
	return out
}

func TestVerifConc(t *testing.T) {
	cases := os.Getenv("VERIF_CASES")
	trace := os.Getenv("VERIF_TRACE")
	racelog := os.Getenv("VERIF_RACELOG")
	if cases == "" || trace == "" {
		t.Skip("VERIF_CASES / VERIF_TRACE not set")
	}
	shard, nshards := vKRShard()
	dur := 120 * time.Millisecond
	if d, err := time.ParseDuration(os.Getenv("VERIF_CONC_DUR")); err == nil {
		dur = d
	}
	fh, err := os.Open(cases)
	if err != nil {
		t.Fatal(err)
	}
	defer fh.Close()
	out, err := os.Create(trace)
	if err != nil {
		t.Fatal(err)
	}
	defer out.Close()
	w := bufio.NewWriter(out)
	defer w.Flush()
	sc := bufio.NewScanner(fh)
	sc.Buffer(make([]byte, 1<<20), 1<<20)
	var off int64
	id := 0
	for sc.Scan() {
		id++
		if (id-1)%nshards != shard {
			continue
		}
		var cs vCCase
		if err := json.Unmarshal(sc.Bytes(), &cs); err != nil {
			t.Fatal(err)
		}
		l := vCLine{Ev: "Conc", Prop: os.Getenv("VERIF_CONC_PROP"), Case: id, A: cs.A, B: cs.B, Pairs: []string{}, Detector: vRaceEnabled && racelog != "", Expect: cs.ExpectRace}
		var setupErr error
		l.Stuck = vConcWatch(func() {
			c, err := vConcCluster(id)
			if err != nil {
				setupErr = err
				return
			}
			fa, fb := c.op(cs.A), c.op(cs.B)
			if fa == nil || fb == nil {
				setupErr = fmt.Errorf("conc: unknown operation in %s / %s", cs.A, cs.B)
				return
			}
			var ia, ib atomic.Int64
			var pan atomic.Value
			loop := func(f func(), n *atomic.Int64) {
				defer c.wg.Done()
				defer func() {
					if p := recover(); p != nil {
						pan.Store(fmt.Sprint(p))
					}
				}()
				for {
					select {
					case <-c.stop:
						return
					default:
					}
					f()
					n.Add(1)
				}
			}
			c.wg.Add(2)
			go loop(fa, &ia)
			go loop(fb, &ib)
			time.Sleep(dur)
			c.close()
			l.ItersA, l.ItersB = int(ia.Load()), int(ib.Load())
			if p, ok := pan.Load().(string); ok {
				l.Pan = p
			}
		})
		if l.Stuck == nil {
			l.Stuck = []string{}
			if setupErr != nil {
				t.Fatal(setupErr)
			}
		}
		if racelog != "" {
			l.Pairs, l.Harness = vConcParse(vConcLogRead(racelog, &off))
			if l.Pairs == nil {
				l.Pairs = []string{}
			}
			l.Races = len(l.Pairs)
		}
		b, _ := json.Marshal(l)
		w.Write(b)
		w.WriteByte('\n')
		w.Flush()
	}
}
