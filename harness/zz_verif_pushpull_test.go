//go:build verif

package memberlist

// Push/pull exchanges between two real nodes with a failure injected at a chosen
// phase and byte offset (DESIGN.md §5 C09).  Cases come from spec/PushPull.tla;
// a phase is concretised to byte offsets of the real exchange, measured on a
// dry run of the same configuration.  Recorded per run: whether Join reported
// success, whether either side's view or delegate state changed, and after a
// complete exchange who lists whom.  TLC (spec/TracePP.tla) judges.

import (
	"bufio"
	"bytes"
	"encoding/binary"
	"encoding/json"
	"fmt"
	"io"
	"log"
	"net"
	"os"
	"sort"
	"sync"
	"testing"
	"testing/synctest"
	"time"

	"github.com/hashicorp/go-msgpack/v2/codec"
)

type vPPCase struct {
	Fail    string `json:"fail"`
	Dir     string `json:"dir"`
	Phase   string `json:"phase"`
	Sealed  bool   `json:"sealed"`
	Labeled bool   `json:"labeled"`
	Comp    bool   `json:"comp"`
	Join    bool   `json:"join"`
}

type vPPEntry struct {
	State string `json:"state"`
	Vsn   []int  `json:"vsn"`
}

type vPPVersions struct {
	Kind           string     `json:"kind"`
	Local          []vPPEntry `json:"local"`
	Remote         []vPPEntry `json:"remote"`
	Accepted       bool       `json:"accepted"`
	NoOverlap      bool       `json:"noOverlap"`
	Unintelligible bool       `json:"unintelligible"`
}

// vRunVersions feeds one version matrix to the real verifyProtocol
func vRunVersions(t *testing.T, id int, v vPPVersions) map[string]any {
	nw := vNewNet(int64(id))
	nd := vPPNewNode(t, nw, "self", net.IPv4(10, 0, 0, 1).To4(), vPPCase{}, nil, "", false)
	defer nd.m.Shutdown()
	u8 := func(x []int) []uint8 {
		o := make([]uint8, len(x))
		for i, y := range x {
			o[i] = uint8(y)
		}
		return o
	}
	note := ""
	for i, e := range v.Local[1:] {
		name := fmt.Sprintf("loc%d", i)
		nd.m.aliveNode(&alive{Incarnation: 1, Node: name, Addr: net.IPv4(10, 0, 1, byte(i+1)).To4(), Port: 7946, Vsn: u8(e.Vsn)}, nil, false)
		if e.State == "dead" {
			nd.m.deadNode(&dead{Incarnation: 1, Node: name, From: "self"})
		}
		nd.m.nodeLock.RLock()
		if _, ok := nd.m.nodeMap[name]; !ok {
			note = "local entry not admitted"
		}
		nd.m.nodeLock.RUnlock()
	}
	var remote []pushNodeState
	for i, e := range v.Remote {
		st := StateAlive
		if e.State == "dead" {
			st = StateDead
		}
		remote = append(remote, pushNodeState{Name: fmt.Sprintf("rem%d", i), Addr: net.IPv4(10, 0, 2, byte(i+1)).To4(), Port: 7946,
			Incarnation: 1, State: st, Vsn: u8(e.Vsn)})
	}
	err := nd.m.verifyProtocol(remote)
	// the order in which a node holds its members is arbitrary (it is reshuffled at every probe wrap)
	nd.m.nodeLock.Lock()
	for i, j := 0, len(nd.m.nodes)-1; i < j; i, j = i+1, j-1 {
		nd.m.nodes[i], nd.m.nodes[j] = nd.m.nodes[j], nd.m.nodes[i]
	}
	nd.m.nodeLock.Unlock()
	err2 := nd.m.verifyProtocol(remote)
	return map[string]any{"ev": "PPVersions", "case": id, "kind": "versions", "local": v.Local, "remote": v.Remote,
		"modelAccepted": v.Accepted, "noOverlap": v.NoOverlap, "unintelligible": v.Unintelligible, "accepted": err == nil,
		"acceptedSwapped": err2 == nil, "note": note}
}

type vPPLine struct {
	Ev   string `json:"ev"`
	Case int    `json:"case"`
	vPPCase
	CutAt    int    `json:"cutAt"` // byte offset of the cut (-1: none)
	Total    int    `json:"total"` // length of the message in the failing direction
	JoinErr  string `json:"joinErr"`
	IChanged bool   `json:"iChanged"`
	HChanged bool   `json:"hChanged"`
	IListsH  bool   `json:"iListsH"`
	IListsH2 bool   `json:"iListsH2"` // a member the host reported alive
	IListsH3 bool   `json:"iListsH3"` // a member the host reported dead
	HListsI  bool   `json:"hListsI"`
	IMerges  int    `json:"iMerges"` // delegate MergeRemoteState calls
	HMerges  int    `json:"hMerges"`
	Note     string `json:"note"`
}

type vPPDelegate struct {
	mu     sync.Mutex
	name   string
	merges int
	veto   bool
}

func (d *vPPDelegate) NodeMeta(int) []byte             { return []byte("meta-" + d.name) }
func (d *vPPDelegate) NotifyMsg([]byte)                {}
func (d *vPPDelegate) GetBroadcasts(int, int) [][]byte { return nil }
func (d *vPPDelegate) LocalState(join bool) []byte {
	return []byte("USERSTATE-of-" + d.name + "-0123456789")
}
func (d *vPPDelegate) MergeRemoteState(buf []byte, _ bool) { d.mu.Lock(); d.merges++; d.mu.Unlock() }
func (d *vPPDelegate) NotifyMerge(peers []*Node) error {
	if d.veto {
		return fmt.Errorf("merge vetoed")
	}
	return nil
}

type vPPNode struct {
	m  *Memberlist
	d  *vPPDelegate
	tr *vSimTransport
}

func vPPNewNode(t *testing.T, nw *vNet, name string, ip net.IP, c vPPCase, keys []string, label string, veto bool) *vPPNode {
	conf := DefaultLANConfig()
	conf.Name = name
	conf.BindPort, conf.AdvertisePort = 7946, 7946
	conf.Logger = log.New(io.Discard, "", 0)
	conf.EnableCompression = c.Comp
	conf.Label = label
	conf.TCPTimeout = 2 * time.Second
	if len(keys) > 0 {
		var all [][]byte
		for _, k := range keys {
			all = append(all, vWKeys[k])
		}
		kr, err := NewKeyring(all, all[0])
		if err != nil {
			t.Fatal(err)
		}
		conf.Keyring = kr
	}
	nd := &vPPNode{d: &vPPDelegate{name: name, veto: veto}}
	nd.tr = nw.attach(name, ip, 7946)
	conf.Transport = nd.tr
	conf.Delegate = nd.d
	conf.Merge = nd.d
	m, err := newMemberlist(conf)
	if err != nil {
		t.Fatal(err)
	}
	if err := m.setAlive(); err != nil {
		t.Fatal(err)
	}
	nd.m = m
	return nd
}

func (n *vPPNode) digest() string {
	n.m.nodeLock.RLock()
	defer n.m.nodeLock.RUnlock()
	var parts []string
	for name, st := range n.m.nodeMap {
		parts = append(parts, fmt.Sprintf("%s:%d:%d:%x:%x", name, st.State, st.Incarnation, []byte(st.Addr), st.Meta))
	}
	sort.Strings(parts)
	n.d.mu.Lock()
	parts = append(parts, fmt.Sprintf("merges=%d", n.d.merges))
	n.d.mu.Unlock()
	return fmt.Sprint(parts)
}

func (n *vPPNode) lists(name string) bool {
	for _, x := range n.m.Members() {
		if x.Name == name {
			return true
		}
	}
	return false
}

type vPPSetup struct {
	I, H *vPPNode
	nw   *vNet
	i2h  int
	h2i  int
}

// vPPPair builds the two nodes of a case
func vPPPair(t *testing.T, id int, c vPPCase) *vPPSetup {
	nw := vNewNet(int64(id))
	label := ""
	if c.Labeled {
		label = "blue"
	}
	var ki, kh []string
	if c.Sealed {
		ki, kh = []string{"k1"}, []string{"k2", "k1"}
		if c.Fail == "auth" && c.Dir == "i2h" {
			kh = []string{"k2"} // the host cannot open the initiator's message
		}
		if c.Fail == "auth" && c.Dir == "h2i" {
			ki = []string{"k1"} // the initiator cannot open the reply sealed under k2
		} else if c.Fail != "auth" {
			ki = []string{"k1", "k2"}
		}
	}
	labelH := label
	if c.Fail == "label" {
		labelH = "red"
	}
	I := vPPNewNode(t, nw, "ini", net.IPv4(10, 0, 0, 1).To4(), c, ki, label, c.Fail == "veto" && c.Dir == "h2i")
	H := vPPNewNode(t, nw, "host", net.IPv4(10, 0, 0, 2).To4(), c, kh, labelH, c.Fail == "veto" && c.Dir == "i2h")
	vsn := []uint8{1, 5, 2, 0, 0, 0}
	H.m.aliveNode(&alive{Incarnation: 3, Node: "h2", Addr: net.IPv4(10, 0, 0, 12).To4(), Port: 7946, Meta: []byte("meta-h2"), Vsn: vsn}, nil, false)
	H.m.aliveNode(&alive{Incarnation: 2, Node: "h3", Addr: net.IPv4(10, 0, 0, 13).To4(), Port: 7946, Vsn: vsn}, nil, false)
	H.m.deadNode(&dead{Incarnation: 2, Node: "h3", From: "h2"})
	I.m.aliveNode(&alive{Incarnation: 4, Node: "i2", Addr: net.IPv4(10, 0, 0, 21).To4(), Port: 7946, Meta: []byte("meta-i2"), Vsn: vsn}, nil, false)
	if c.Fail == "versions" {
		// the sender of the failing direction knows an alive member that understands only newer protocol versions
		odd := &alive{Incarnation: 1, Node: "odd", Addr: net.IPv4(10, 0, 0, 31).To4(), Port: 7946, Vsn: []uint8{4, 5, 4, 0, 0, 0}}
		if c.Dir == "i2h" {
			I.m.aliveNode(odd, nil, false)
		} else {
			H.m.aliveNode(odd, nil, false)
		}
	}
	s := &vPPSetup{I: I, H: H, nw: nw}
	return s
}

func (s *vPPSetup) close() {
	_ = s.I.m.Shutdown()
	_ = s.H.m.Shutdown()
}

// vPPOversize returns a plaintext push/pull message declaring sizes beyond the caps
func vPPOversize(kind string) []byte {
	var buf bytes.Buffer
	buf.WriteByte(byte(pushPullMsg))
	h := pushPullHeader{Nodes: 1, UserStateLen: 0, Join: true}
	if kind == "nodecap" {
		h.Nodes = maxPushStateNodes + 1
	} else {
		h.Nodes = 0
		h.UserStateLen = maxPushStateBytes + 1
	}
	hd := codec.MsgpackHandle{}
	_ = codec.NewEncoder(&buf, &hd).Encode(&h)
	return buf.Bytes()
}

func vRunPP(t *testing.T, id int, c vPPCase, cutAt int) (l vPPLine) {
	l.Ev, l.Case, l.vPPCase, l.CutAt = "PPCase", id, c, cutAt
	s := vPPPair(t, id, c)
	defer s.close()
	I, H := s.I, s.H
	di0, dh0 := I.digest(), H.digest()
	var i2h, h2i int
	s.nw.streamHook = func(client, server *vConn) {
		client.count, server.count = &i2h, &h2i
		if c.Fail == "cut" && cutAt >= 0 {
			if c.Dir == "i2h" {
				client.limit = cutAt
			} else {
				server.limit = cutAt
			}
		}
	}
	addrH := Address{Addr: "10.0.0.2:7946", Name: "host"}
	var err error
	if c.Fail == "busy" {
		// the host has the maximum number of exchanges in progress (their handlers are counted, nothing else)
		H.m.pushPullReq.Add(maxPushPullRequests)
		defer H.m.pushPullReq.Add(^uint32(maxPushPullRequests - 1))
	}
	switch {
	case (c.Fail == "nodecap" || c.Fail == "usercap") && c.Dir == "i2h":
		// a raw initiator declaring oversized state to the real host
		c1, c2 := net.Pipe()
		H.tr.streamCh <- c1
		go func() { _, _ = c2.Write(vPPOversize(c.Fail)); time.Sleep(100 * time.Millisecond); _ = c2.Close() }()
		time.Sleep(500 * time.Millisecond)
		err = fmt.Errorf("raw initiator")
	case (c.Fail == "nodecap" || c.Fail == "usercap") && c.Dir == "h2i":
		// a raw host answering the real initiator with oversized state
		fake := s.nw.attach("fakehost", net.IPv4(10, 0, 0, 7).To4(), 7946)
		go func() {
			select {
			case conn := <-fake.streamCh:
				buf := make([]byte, 65536)
				_ = conn.SetReadDeadline(time.Now().Add(200 * time.Millisecond))
				_, _ = conn.Read(buf)
				_, _ = conn.Write(vPPOversize(c.Fail))
				time.Sleep(100 * time.Millisecond)
				_ = conn.Close()
			case <-time.After(3 * time.Second):
			}
		}()
		err = I.m.pushPullNode(Address{Addr: "10.0.0.7:7946", Name: "fakehost"}, c.Join)
	default:
		if c.Join {
			_, err = I.m.Join([]string{"host/10.0.0.2:7946"})
		} else {
			err = I.m.pushPullNode(addrH, false)
		}
	}
	time.Sleep(2500 * time.Millisecond) // let the host's handler finish (or time out)
	synctest.Wait()
	if err != nil {
		l.JoinErr = err.Error()
		if len(l.JoinErr) > 120 {
			l.JoinErr = l.JoinErr[:120]
		}
	}
	l.Total = i2h
	if c.Dir == "h2i" {
		l.Total = h2i
	}
	l.IChanged = I.digest() != di0
	l.HChanged = H.digest() != dh0
	l.IListsH, l.IListsH2, l.IListsH3, l.HListsI = I.lists("host"), I.lists("h2"), I.lists("h3"), H.lists("ini")
	I.d.mu.Lock()
	l.IMerges = I.d.merges
	I.d.mu.Unlock()
	H.d.mu.Lock()
	l.HMerges = H.d.merges
	H.d.mu.Unlock()
	return l
}

// vPPOffsets: the byte offsets at which a phase of the failing direction is cut
func vPPOffsets(c vPPCase, total int, all bool, seed int64) []int {
	lab := 0
	if c.Labeled {
		lab = 2 + len("blue")
	}
	var lo, hi int // [lo, hi): offsets at which the cut loses at least one byte of the phase
	user := len("USERSTATE-of-host-0123456789")
	switch c.Phase {
	case "label":
		lo, hi = 0, lab
	case "enchdr":
		lo, hi = lab, lab+5
	case "body":
		lo = lab
		if c.Sealed {
			lo += 5
		}
		hi = total
		if !c.Sealed && !c.Comp {
			hi = total - user
		}
	case "userstate":
		if c.Sealed || c.Comp {
			return nil // the user state is not a separate region of the stream
		}
		lo, hi = total-user, total
	}
	if hi > total {
		hi = total
	}
	var out []int
	if all {
		for k := lo; k < hi; k++ {
			out = append(out, k)
		}
		return out
	}
	seen := map[int]bool{}
	for _, k := range []int{lo, lo + 1, (lo + hi) / 2, hi - 2, hi - 1, lo + int(seed%7) + 2} {
		if k >= lo && k < hi && !seen[k] {
			seen[k] = true
			out = append(out, k)
		}
	}
	return out
}

func TestVerifPushPull(t *testing.T) {
	cases, trace := os.Getenv("VERIF_CASES"), os.Getenv("VERIF_TRACE")
	if cases == "" || trace == "" {
		t.Skip("VERIF_CASES / VERIF_TRACE not set")
	}
	shard, nshard := 0, 1
	if v := os.Getenv("VERIF_SHARD"); v != "" {
		fmt.Sscanf(v, "%d/%d", &shard, &nshard)
	}
	allOffsets := os.Getenv("VERIF_TIER") == "thorough"
	var seed int64
	fmt.Sscanf(os.Getenv("VERIF_SEED"), "%d", &seed)
	f, err := os.Open(cases)
	if err != nil {
		t.Fatal(err)
	}
	defer f.Close()
	out, err := os.Create(trace)
	if err != nil {
		t.Fatal(err)
	}
	defer out.Close()
	w := bufio.NewWriter(out)
	defer w.Flush()
	sc := bufio.NewScanner(f)
	sc.Buffer(make([]byte, 1<<20), 1<<24)
	idx := 0
	for sc.Scan() {
		idx++
		if (idx-1)%nshard != shard {
			continue
		}
		var probe struct {
			Kind string `json:"kind"`
		}
		_ = json.Unmarshal(sc.Bytes(), &probe)
		if probe.Kind == "versions" {
			var v vPPVersions
			if err := json.Unmarshal(sc.Bytes(), &v); err != nil {
				t.Fatalf("case %d: %v", idx, err)
			}
			vid := idx
			synctest.Test(t, func(t *testing.T) {
				b, _ := json.Marshal(vRunVersions(t, vid, v))
				w.Write(b)
				w.WriteByte('\n')
				time.Sleep(time.Second)
				synctest.Wait()
			})
			continue
		}
		var c vPPCase
		if err := json.Unmarshal(sc.Bytes(), &c); err != nil {
			t.Fatalf("case %d: %v", idx, err)
		}
		id := idx
		synctest.Test(t, func(t *testing.T) {
			emit := func(l vPPLine) {
				b, _ := json.Marshal(l)
				w.Write(b)
				w.WriteByte('\n')
			}
			if c.Fail != "cut" {
				emit(vRunPP(t, id, c, -1))
			} else {
				// dry run of the same configuration to measure the stream
				dry := c
				dry.Fail = "none"
				m := vRunPP(t, id, dry, -1)
				total := m.Total
				if c.Dir == "h2i" {
					// the dry run counted i2h (its dir is kept); measure again for the reply direction
					d2 := dry
					d2.Dir = "h2i"
					total = vRunPP(t, id, d2, -1).Total
				}
				// the run's own count is authoritative (with compression the length varies by a
				// byte or two with the random order of the node list)
				for _, k := range vPPOffsets(c, total, allOffsets, seed+int64(id)) {
					emit(vRunPP(t, id, c, k))
				}
			}
			time.Sleep(30 * time.Second)
			synctest.Wait()
		})
	}
	_ = binary.BigEndian
}
