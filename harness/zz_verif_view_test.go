//go:build verif

package memberlist

// Edge replay for the MemberView model (DESIGN.md §4.4).
//
// Input (VERIF_EDGES): one JSON object per generated transition of the bounded
// model: the configuration, the node's abstract view before the step, and the
// action.  For every edge the harness builds a real Memberlist, drives it with
// real calls (aliveNode, suspectNode, deadNode, resetNodes, nextIncarnation,
// the leave flag) into a state whose projection equals the abstract view,
// checks that it does, then executes the action through the real code while
// the hooks record the step.  The recorded trace (VERIF_TRACE) is judged by
// TLC; nothing is judged here.

import (
	"bufio"
	"encoding/json"
	"fmt"
	"io"
	"log"
	"net"
	"os"
	"sort"
	"strconv"
	"strings"
	"testing"
	"testing/synctest"
	"time"
)

// ---------------------------------------------------------------------------
// A transport that goes nowhere

type vNullTransport struct {
	ip       net.IP
	port     int
	packetCh chan *Packet
	streamCh chan net.Conn
	writes   int
}

func vNewNullTransport(ip string, port int) *vNullTransport {
	return &vNullTransport{ip: net.ParseIP(ip).To4(), port: port, packetCh: make(chan *Packet), streamCh: make(chan net.Conn)}
}
func (t *vNullTransport) FinalAdvertiseAddr(string, int) (net.IP, int, error) {
	return t.ip, t.port, nil
}
func (t *vNullTransport) WriteTo(b []byte, addr string) (time.Time, error) {
	t.writes++
	return time.Now(), nil
}
func (t *vNullTransport) WriteToAddress(b []byte, a Address) (time.Time, error) {
	t.writes++
	return time.Now(), nil
}
func (t *vNullTransport) PacketCh() <-chan *Packet { return t.packetCh }
func (t *vNullTransport) DialTimeout(addr string, timeout time.Duration) (net.Conn, error) {
	return nil, fmt.Errorf("null transport")
}
func (t *vNullTransport) DialAddressTimeout(a Address, timeout time.Duration) (net.Conn, error) {
	return nil, fmt.Errorf("null transport")
}
func (t *vNullTransport) StreamCh() <-chan net.Conn { return t.streamCh }
func (t *vNullTransport) Shutdown() error           { return nil }

// ---------------------------------------------------------------------------
// Edge format

type vWorld struct {
	Rec     map[string]vRec   `json:"rec"`
	Timer   map[string]vTimer `json:"timer"`
	Stale   map[string]bool   `json:"stale"`
	SelfInc int64             `json:"selfInc"`
	Leave   bool              `json:"leave"`
	Nn      int               `json:"nn"`
	Now     int64             `json:"now"`
}

type vEdge struct {
	Kind   string `json:"kind"`
	Cfg    vCfg   `json:"cfg"`
	World  vWorld `json:"world"`
	Op     string `json:"op"`
	Via    string `json:"via"`
	Boot   bool   `json:"boot"`
	Notify bool   `json:"notify"`
	Claim  vClaim `json:"claim"`
	Node   string `json:"node"`
	SrcOk  bool   `json:"srcOk"`
	Level  int    `json:"level"` // position of the step in the behaviour TLC generated (walk mode)
}

// ---------------------------------------------------------------------------
// Concretisation tables (abstract label -> concrete value); several variants

type vConc struct {
	name   string
	addr   map[string][]byte
	meta   map[string][]byte
	incMap func(int64) uint32
	exact  bool
	tick   time.Duration
	allow  []string
	self   string
}

var vTick = time.Hour

func vConcretisation(variant int) *vConc {
	c := &vConc{name: "identity", exact: true, tick: vTick, self: "s",
		allow: []string{"10.0.0.0/8", "fd00::/8"},
		addr: map[string][]byte{
			"A0": net.ParseIP("10.0.0.100").To4(),
			"A1": net.ParseIP("10.0.0.1").To4(),
			"A2": net.ParseIP("10.0.0.2").To4(),
			"X1": net.ParseIP("192.168.1.1").To4(),
			"F":  net.ParseIP("10.0.0.50").To4(),
			"E0": {},         // no address at all
			"M3": {10, 0, 0}, // malformed length
		},
		meta: map[string][]byte{
			"m0": []byte("meta-zero"),
			"m1": []byte("meta-one"),
			"mv": []byte("veto-me"),
		},
		incMap: func(i int64) uint32 { return uint32(i) },
	}
	switch variant {
	case 1: // IPv6 peers, long metadata, incarnations spread out (far-ahead accusations)
		c.name = "v6-spread"
		c.exact = false
		c.addr["A1"] = net.ParseIP("fd00::1")
		c.addr["A2"] = net.ParseIP("fd00::2")
		c.addr["X1"] = net.ParseIP("2001:db8::1")
		c.meta["m1"] = []byte(strings.Repeat("M", 512))
		c.incMap = func(i int64) uint32 { return uint32(i) << 20 }
	case 2: // IPv4-mapped IPv6 for the second address, incarnations far apart and near the top of the range
		c.name = "mapped-high"
		c.exact = false
		c.addr["A2"] = net.ParseIP("10.0.0.2").To16()
		c.addr["X1"] = net.ParseIP("192.168.1.1").To16()
		c.meta["m0"] = []byte{0}
		// neighbouring abstract incarnations are more than 2^31 apart, the largest sits just below the top
		c.incMap = func(i int64) uint32 {
			switch {
			case i <= 0:
				return 0
			case i == 1:
				return 5
			case i == 2:
				return 1<<31 + 9
			}
			return uint32(4294967295 - 2 - 8*(3-min(i, 3)))
		}
	}
	return c
}

func (c *vConc) labels() *vLabels {
	l := &vLabels{addr: map[string]string{}, meta: map[string]string{}}
	for k, v := range c.addr {
		l.addr[net.IP(v).String()] = k
	}
	for k, v := range c.meta {
		l.meta[string(v)] = k
	}
	return l
}

func (c *vConc) vsn(v []int) []uint8 {
	out := make([]uint8, len(v))
	for i, x := range v {
		out[i] = uint8(x)
	}
	return out
}

// ---------------------------------------------------------------------------
// One replayed instance

type vInst struct {
	t     *testing.T
	s     *vSink
	c     *vConc
	m     *Memberlist
	mp    *Memberlist
	md    *vMetaDelegate
	t0    time.Time
	seq   int
	stale map[string]*suspicion
	fill  []string
}

var vAllowSeq int

func vNewInst(t *testing.T, s *vSink, c *vConc, cfg vCfg) *vInst {
	in := &vInst{t: t, s: s, c: c, stale: map[string]*suspicion{}}
	conf := DefaultLANConfig()
	conf.Name = c.self
	conf.Transport = vNewNullTransport(net.IP(c.addr["A0"]).String(), 7946)
	conf.BindPort = 7946
	conf.AdvertisePort = 7946
	conf.Logger = log.New(io.Discard, "", 0)
	conf.SuspicionMult = cfg.Mult
	conf.SuspicionMaxTimeoutMult = cfg.MaxMult
	conf.ProbeInterval = time.Duration(cfg.Interval) * time.Millisecond
	conf.DeadNodeReclaimTime = time.Duration(cfg.Reclaim) * c.tick * 3 / 2
	conf.GossipToTheDeadTime = time.Duration(cfg.GossipDead) * c.tick * 3 / 2
	in.md = &vMetaDelegate{meta: c.meta["m0"]}
	conf.Delegate = in.md
	conf.Events = &vEventDelegate{s: s, m: &in.mp}
	conf.Conflict = &vConflictDelegate{s: s, m: &in.mp}
	veto := ""
	if cfg.AliveDelegate {
		vm := cfg.VetoMeta
		if vm == "" {
			vm = "mv"
		}
		veto = string(c.meta[vm])
		conf.Alive = &vAliveDelegate{veto: veto}
	}
	allow := c.allow
	if cfg.AllowOn {
		// the same allowlist as operators write it: plain; every network listed twice; with a narrower network inside
		// each entry (lists are concatenated from several sources) - the meaning is the same
		vAllowSeq++
		switch vAllowSeq % 3 {
		case 1:
			allow = append(append([]string{}, c.allow...), c.allow...)
		case 2:
			allow = append([]string{}, c.allow...)
			for _, a := range c.allow {
				if ip, nw, err := net.ParseCIDR(a); err == nil {
					ones, bits := nw.Mask.Size()
					if ones+8 <= bits {
						allow = append(allow, fmt.Sprintf("%s/%d", ip.String(), ones+8))
					}
				}
			}
			allow = append(allow, c.allow[0])
		}
		nets, err := ParseCIDRs(allow)
		if err != nil {
			t.Fatal(err)
		}
		conf.CIDRsAllowed = nets
	}
	m, err := newMemberlist(conf)
	if err != nil {
		t.Fatalf("newMemberlist: %v", err)
	}
	in.m, in.mp = m, m
	tc := cfg
	tc.Reclaim = conf.DeadNodeReclaimTime.Milliseconds()
	tc.GossipDead = conf.GossipToTheDeadTime.Milliseconds()
	n := s.register(m, tc, allow, veto, c.labels())
	in.t0 = time.Now()
	s.mu.Lock()
	s.epoch = in.t0 // times in the trace are relative to the start of the case
	s.mu.Unlock()
	if err := m.setAlive(); err != nil {
		t.Fatalf("setAlive: %v", err)
	}
	n.created = true
	return in
}

func (in *vInst) retire() {
	in.m.nodeLock.Lock()
	for _, tm := range in.m.nodeTimers {
		tm.timer.Stop()
	}
	in.m.nodeLock.Unlock()
	for _, tm := range in.stale {
		tm.timer.Stop()
	}
	in.s.unregister(in.m)
	_ = in.m.Shutdown()
}

// at sleeps until the given abstract tick (plus a strictly increasing number of ms)
func (in *vInst) at(tick int64) {
	in.seq++
	target := in.t0.Add(time.Duration(tick) * in.c.tick).Add(time.Duration(in.seq) * time.Millisecond)
	if d := time.Until(target); d > 0 {
		time.Sleep(d)
	}
}

func (in *vInst) aliveMsg(name string, r vRec, inc int64) *alive {
	v := in.c.vsn(r.Vsn)
	if len(v) == 6 && v[0] == 0 && v[1] == 0 && v[2] == 0 && v[3] == 0 && v[4] == 0 && v[5] == 0 {
		v = nil // a record with an all-zero vector was created from a claim without one
	}
	return &alive{Incarnation: in.c.incMap(inc), Node: name, Addr: in.c.addr[r.Addr], Port: uint16(r.Port),
		Meta: in.c.meta[r.Meta], Vsn: v}
}

// bump raises the node's own incarnation counter to target with the code's own mutator
func (in *vInst) bump(target uint32) {
	if cur := in.m.incarnation.Load(); target > cur {
		in.m.skipIncarnation(target - cur)
	}
}

func (in *vInst) noteTimers() {
	// remember every suspicion object so that a later cancelled one can be fired
	in.m.nodeLock.RLock()
	for name, tm := range in.m.nodeTimers {
		in.stale["cur:"+name] = tm
	}
	in.m.nodeLock.RUnlock()
}

// build drives the real node into the abstract world w; returns "" or why not.
func (in *vInst) build(w vWorld, cfg vCfg) string {
	m := in.m
	self := in.c.self
	type step struct {
		tick int64
		ord  int
		f    func()
	}
	var plan []step
	add := func(tick int64, ord int, f func()) { plan = append(plan, step{tick, ord, f}) }

	// fillers: further alive members
	for i := 0; i < cfg.Fillers; i++ {
		name := "f" + strconv.Itoa(i+1)
		ip := net.ParseIP("10.0.0." + strconv.Itoa(50+i)).To4()
		add(0, 0, func() {
			m.aliveNode(&alive{Incarnation: 1, Node: name, Addr: ip, Port: 7946, Vsn: []uint8{1, 5, 2, 0, 0, 0}}, nil, false)
		})
	}

	names := make([]string, 0, len(w.Rec))
	for name := range w.Rec {
		names = append(names, name)
	}
	sort.Strings(names)
	needReap := false
	for _, name := range names {
		r := w.Rec[name]
		tm := w.Timer[name]
		if name == self {
			sr := r
			switch r.State {
			case "alive":
				add(w.Now, 1, func() {
					tgt, cnt := in.c.incMap(sr.Inc), in.c.incMap(w.SelfInc)
					if cnt >= tgt {
						in.bump(tgt)
					}
					if tgt != 1 || sr.Meta != "m0" {
						m.aliveNode(in.aliveMsg(self, sr, sr.Inc), nil, true)
					}
					in.bump(cnt)
					if w.Leave {
						m.leave.Store(1)
					}
				})
			case "dead", "left":
				if !w.Leave {
					return "self dead/left without leave flag"
				}
				j := sr.Inc
				if w.SelfInc < j {
					j = w.SelfInc
				}
				from := self
				if r.State == "dead" {
					from = "zz-other"
				}
				add(r.Changed, 1, func() {
					if in.c.incMap(j) != 1 || sr.Meta != "m0" {
						m.aliveNode(in.aliveMsg(self, sr, j), nil, true)
					}
					in.bump(in.c.incMap(w.SelfInc))
					m.leave.Store(1)
					m.deadNode(&dead{Incarnation: in.c.incMap(sr.Inc), Node: self, From: from})
				})
			case "absent":
				if !w.Leave {
					return "self absent without leave flag"
				}
				needReap = true
				add(0, 1, func() {
					in.bump(in.c.incMap(w.SelfInc))
					m.leave.Store(1)
					m.deadNode(&dead{Incarnation: 1, Node: self, From: self})
				})
			default:
				return "self state " + r.State
			}
			continue
		}

		// a peer
		pr := r
		pname := name
		phantom := pr.State == "dead" && pr.Changed < 0
		// A cancelled suspicion whose Go timer is still armed, or a record at incarnation 0
		// that is not the phantom of a first contact, can only arise after the name was
		// given up and taken over from another address.  Prefix: alive at another address,
		// (suspicion,) graceful departure; the main construction then reclaims the name.
		if w.Stale[name] || (pr.State != "absent" && !phantom && pr.Inc == 0) {
			other := "A1"
			if pr.Addr == "A1" {
				other = "A2"
			}
			base := vRec{Addr: other, Port: 7946, Meta: "m0", Vsn: pr.Vsn}
			if len(base.Vsn) == 0 {
				base.Vsn = []int{1, 5, 2, 0, 0, 0}
			}
			withTimer := w.Stale[name]
			add(0, 2, func() {
				m.aliveNode(in.aliveMsg(pname, base, 1), nil, false)
				if withTimer {
					m.suspectNode(&suspect{Incarnation: in.c.incMap(1), Node: pname, From: self})
					m.nodeLock.RLock()
					if tm, ok := m.nodeTimers[pname]; ok {
						in.stale[pname] = tm
					}
					m.nodeLock.RUnlock()
				}
				m.deadNode(&dead{Incarnation: in.c.incMap(1), Node: pname, From: pname})
			})
			if pr.State == "absent" || phantom {
				needReap = true
			}
		}
		switch {
		case pr.State == "absent":
		case phantom:
			if pr.Inc != 0 {
				return "phantom with incarnation"
			}
			add(w.Now, 4, func() { m.aliveNode(in.aliveMsg(pname, pr, 0), nil, false) })
		case pr.State == "alive":
			add(w.Now, 3, func() { m.aliveNode(in.aliveMsg(pname, pr, pr.Inc), nil, false) })
		case pr.State == "suspect":
			if !tm.On || len(tm.Conf) == 0 {
				return "suspect without timer"
			}
			conf := append([]string(nil), tm.Conf...)
			sort.Strings(conf)
			add(w.Now, 3, func() {
				m.aliveNode(in.aliveMsg(pname, pr, pr.Inc), nil, false)
				for _, f := range conf {
					m.suspectNode(&suspect{Incarnation: in.c.incMap(pr.Inc), Node: pname, From: f})
				}
			})
		case pr.State == "dead" || pr.State == "left":
			from := self
			if pr.State == "left" {
				from = pname
			}
			add(pr.Changed, 3, func() {
				m.aliveNode(in.aliveMsg(pname, pr, pr.Inc), nil, false)
				m.deadNode(&dead{Incarnation: in.c.incMap(pr.Inc), Node: pname, From: from})
			})
		default:
			return "peer state " + pr.State
		}
	}
	if needReap {
		add(w.Now, 2, func() { m.resetNodes() })
	}
	sort.SliceStable(plan, func(i, j int) bool {
		if plan[i].tick != plan[j].tick {
			return plan[i].tick < plan[j].tick
		}
		return plan[i].ord < plan[j].ord
	})
	for _, st := range plan {
		in.at(st.tick)
		st.f()
	}
	in.at(w.Now)
	return ""
}

// project reads the real node's view back in the model's vocabulary
func (in *vInst) project(names []string) vWorld {
	m := in.m
	n := in.s.nodes[m]
	w := vWorld{Rec: map[string]vRec{}, Timer: map[string]vTimer{}}
	m.nodeLock.RLock()
	defer m.nodeLock.RUnlock()
	for _, name := range names {
		r := in.s.recOf(n, name)
		if r.State == "dead" || r.State == "left" {
			if r.Changed >= 0 {
				r.Changed = int64((time.Duration(r.Changed)*time.Millisecond - in.t0.Sub(in.s.epoch)) / in.c.tick)
			}
		} else {
			r.Changed = 0
		}
		w.Rec[name] = r
		w.Timer[name] = in.s.timerOf(n, name)
	}
	w.SelfInc = int64(m.incarnation.Load())
	w.Leave = m.leave.Load() == 1
	w.Nn = int(m.numNodes.Load())
	return w
}

func vSameWorld(want, got vWorld, c *vConc) string {
	for name, wr := range want.Rec {
		gr := got.Rec[name]
		if wr.State == "alive" || wr.State == "suspect" || wr.State == "absent" {
			wr.Changed = 0
		}
		wr.Inc = int64(c.incMap(wr.Inc))
		if wr.State != gr.State || wr.Inc != gr.Inc || wr.Addr != gr.Addr || wr.Port != gr.Port || wr.Meta != gr.Meta ||
			wr.Changed != gr.Changed || fmt.Sprint(wr.Vsn) != fmt.Sprint(gr.Vsn) {
			return fmt.Sprintf("rec[%s]: want %+v got %+v", name, wr, gr)
		}
		wt, gt := want.Timer[name], got.Timer[name]
		wc := append([]string(nil), wt.Conf...)
		sort.Strings(wc)
		if wt.On != gt.On || (wt.On && (wt.K != gt.K || wt.N != gt.N || wt.Min != gt.Min || wt.Max != gt.Max ||
			strings.Join(wc, ",") != strings.Join(gt.Conf, ","))) {
			return fmt.Sprintf("timer[%s]: want %+v got %+v", name, wt, gt)
		}
	}
	if int64(c.incMap(want.SelfInc)) != got.SelfInc && want.SelfInc != got.SelfInc {
		return fmt.Sprintf("selfInc: want %d got %d", want.SelfInc, got.SelfInc)
	}
	if want.Leave != got.Leave || want.Nn != got.Nn {
		return fmt.Sprintf("leave/nn: want %v/%d got %v/%d", want.Leave, want.Nn, got.Leave, got.Nn)
	}
	return ""
}

// vPlainAddr: a net.Addr that is not one of the standard library's types
type vPlainAddr string

func (a vPlainAddr) Network() string { return "sim" }
func (a vPlainAddr) String() string  { return string(a) }

var vUdpAliveSeq int

// act executes the edge's action through the real code
func (in *vInst) act(e *vEdge) string {
	m := in.m
	c := in.c
	switch e.Kind {
	case "reap":
		// The age of a record that is not dead or left plays no part in reaping (a suspicion may
		// well last longer than GossipToTheDeadTime): they are backdated.
		{
			m.nodeLock.Lock()
			for _, n := range m.nodes {
				if !n.DeadOrLeft() {
					n.StateChange = n.StateChange.Add(-100 * m.config.GossipToTheDeadTime)
				}
			}
			m.nodeLock.Unlock()
		}
		m.resetNodes()
	case "udpalive":
		cl := e.Claim
		a := &alive{Incarnation: c.incMap(cl.Inc), Node: cl.Node, Addr: c.addr[cl.Addr], Port: uint16(cl.Port),
			Meta: c.meta[cl.Meta], Vsn: c.vsn(cl.Vsn)}
		buf, err := encode(aliveMsg, a, false)
		if err != nil {
			return "encode: " + err.Error()
		}
		// the source address as the transport reports it: a *net.UDPAddr, or (every other edge) any other
		// net.Addr implementation that prints as host:port - custom transports are free to use their own
		host := "10.9.9.9"
		if !e.SrcOk {
			host = "172.16.3.4"
		}
		var src net.Addr = &net.UDPAddr{IP: net.ParseIP(host), Port: 7946}
		vUdpAliveSeq++
		if vUdpAliveSeq%2 == 0 {
			src = vPlainAddr(net.JoinHostPort(host, "7946"))
		}
		m.handleAlive(buf.Bytes()[1:], src)
	case "stalefire":
		tm, ok := in.stale[e.Node]
		if !ok {
			return "no cancelled timer retained"
		}
		tm.timeoutFn()
	case "nodeop":
		cl := e.Claim
		switch e.Via {
		case "direct", "api":
			switch e.Op {
			case "alive":
				a := &alive{Incarnation: c.incMap(cl.Inc), Node: cl.Node, Addr: c.addr[cl.Addr], Port: uint16(cl.Port),
					Meta: c.meta[cl.Meta], Vsn: c.vsn(cl.Vsn)}
				var ch chan struct{}
				if e.Notify {
					ch = make(chan struct{}, 1)
				}
				m.aliveNode(a, ch, e.Boot)
			case "suspect":
				m.suspectNode(&suspect{Incarnation: c.incMap(cl.Inc), Node: cl.Node, From: in.accuser(e)})
			case "dead":
				m.deadNode(&dead{Incarnation: c.incMap(cl.Inc), Node: cl.Node, From: in.accuser(e)})
			}
		case "merge":
			st := map[string]NodeStateType{"alive": StateAlive, "suspect": StateSuspect, "dead": StateDead, "left": StateLeft}[cl.Kind]
			r := pushNodeState{Name: cl.Node, Incarnation: c.incMap(cl.Inc), State: st}
			if cl.Kind == "alive" {
				r.Addr, r.Port, r.Meta, r.Vsn = c.addr[cl.Addr], uint16(cl.Port), c.meta[cl.Meta], c.vsn(cl.Vsn)
			} else {
				r.Addr, r.Port, r.Vsn = c.addr["A1"], 7946, []uint8{1, 5, 2, 0, 0, 0}
			}
			m.mergeState([]pushNodeState{r})
		case "timer":
			m.nodeLock.RLock()
			tm, ok := m.nodeTimers[cl.Node]
			m.nodeLock.RUnlock()
			if !ok {
				return "no live timer"
			}
			tm.timer.Stop()
			tm.timeoutFn()
		default:
			return "via " + e.Via
		}
	default:
		return "kind " + e.Kind
	}
	return ""
}

var vAccuserSeq int

// accuser: who signs an accusation about the node itself plays no part in the obligation to refute.  The model
// names the node itself; in turn the harness lets it be the node itself, a member the node has never heard of, and
// a member the node has recorded as dead (an asymmetric partition: the node has given up on a peer that is alive
// and accuses it).  (The preparation is not recorded: the step under test is the accusation.)
func (in *vInst) accuser(e *vEdge) string {
	cl := e.Claim
	if cl.Node != in.c.self || cl.From != in.c.self {
		return cl.From
	}
	vAccuserSeq++
	switch vAccuserSeq % 3 {
	case 1:
		return "q9"
	case 2:
		keep := in.s.keep
		in.s.keep = func(*vLine) bool { return false }
		in.m.aliveNode(&alive{Incarnation: 1, Node: "q9", Addr: net.ParseIP("10.0.0.77").To4(), Port: 7946, Vsn: []uint8{1, 5, 2, 0, 0, 0}}, nil, false)
		in.m.deadNode(&dead{Incarnation: 1, Node: "q9", From: in.c.self})
		in.s.keep = keep
		return "q9"
	}
	return cl.From
}

// actOverlapped: the edge's claim, with a second, newer alive claim about the same member delivered while the
// first is inside a delegate callback (if the node lock lets it in) or right after the first has returned
func (in *vInst) actOverlapped(e *vEdge, st *vReplayStats) string {
	c, cl := in.c, e.Claim
	hi := cl.Inc
	if r, ok := e.World.Rec[cl.Node]; ok && r.Inc > hi {
		hi = r.Inc
	}
	second := func() {
		in.m.aliveNode(&alive{Incarnation: c.incMap(hi + 1), Node: cl.Node, Addr: c.addr[cl.Addr], Port: uint16(cl.Port),
			Meta: c.meta["m1"], Vsn: c.vsn(cl.Vsn)}, nil, false)
	}
	fired, inside := false, false
	vOverlapHook = func() {
		if fired {
			return
		}
		fired = true
		if in.m.nodeLock.TryLock() {
			in.m.nodeLock.Unlock()
			inside = true
			done := make(chan struct{})
			go func() { defer close(done); second() }()
			<-done
		}
	}
	why := in.act(e)
	vOverlapHook = nil
	if fired {
		st.Why["overlap: callback reached"]++
	}
	if inside {
		st.Why["overlap: second claim got in during the callback"]++
	} else {
		second()
	}
	return why
}

// ---------------------------------------------------------------------------

type vReplayStats struct {
	Edges           int            `json:"edges"`
	Replayed        int            `json:"replayed"`
	Unconstructible int            `json:"unconstructible"`
	Mismatch        int            `json:"prestate_mismatch"`
	ActFailed       int            `json:"act_failed"`
	Lines           int            `json:"lines"`
	Why             map[string]int `json:"why"`
	Variant         string         `json:"variant"`
	FirstMismatch   string         `json:"first_mismatch"`
}

func TestVerifViewReplay(t *testing.T) {
	edgesPath := os.Getenv("VERIF_EDGES")
	tracePath := os.Getenv("VERIF_TRACE")
	if edgesPath == "" || tracePath == "" {
		t.Skip("VERIF_EDGES / VERIF_TRACE not set")
	}
	shard, nshard := 0, 1
	if v := os.Getenv("VERIF_SHARD"); v != "" {
		fmt.Sscanf(v, "%d/%d", &shard, &nshard)
	}
	variant, _ := strconv.Atoi(os.Getenv("VERIF_VARIANT"))
	// variants >= 100: overlap mode on top of concretisation (variant - 100): while the claim of the edge is inside a
	// delegate callback (alive / event / conflict delegate), a second, newer alive claim about the same member is
	// delivered on another goroutine.  The membership rules run under the node lock, so the second delivery cannot
	// get in: the harness looks at the lock (TryLock) - held: the second claim is delivered right after the first
	// returns (the order the lock enforces); free: it is delivered there and then, inside the callback.
	overlap := variant >= 100 && variant < 200
	// variants >= 200: walk mode.  The edges are the consecutive steps of behaviours TLC generated by simulation
	// (the level says so): a behaviour is executed step after step on ONE instance, whatever its state has become -
	// state that a step corrupts without showing it in the projection is met by the steps that follow.  A step
	// that is not the successor of the previous one starts from a freshly built view, as in the edge mode.
	walk := variant >= 200 && variant < 300
	// variants >= 300: epilogue mode.  After the edge's step: time passes (three ticks), the reaper runs, and the
	// member of the step is heard of again (a newer alive claim, then a death claim) - state that the step left
	// inconsistent without showing it is met by the steps that follow; all of them are recorded and judged.
	epilogue := variant >= 300
	variant %= 100
	f, err := os.Open(edgesPath)
	if err != nil {
		t.Fatal(err)
	}
	defer f.Close()
	var edges []*vEdge
	sc := bufio.NewScanner(f)
	sc.Buffer(make([]byte, 1<<20), 1<<24)
	idx := 0
	for sc.Scan() {
		idx++
		if (idx-1)%nshard != shard {
			continue
		}
		var e vEdge
		if err := json.Unmarshal(sc.Bytes(), &e); err != nil {
			t.Fatalf("edge %d: %v", idx, err)
		}
		edges = append(edges, &e)
	}
	if err := sc.Err(); err != nil {
		t.Fatal(err)
	}
	ids := make([]int, len(edges))
	{
		k := 0
		for i := 1; i <= idx; i++ {
			if (i-1)%nshard == shard {
				ids[k] = i
				k++
			}
		}
	}

	conc := vConcretisation(variant)
	st := &vReplayStats{Why: map[string]int{}, Variant: conc.name}
	if overlap {
		st.Variant += "+overlap"
	}
	if walk {
		st.Variant += "+walk"
	}
	if epilogue {
		st.Variant += "+epilogue"
	}
	var cur *vInst
	var curCfg vCfg
	curLevel := -1
	recording := false
	const batch = 400
	var sink *vSink
	// one sink for the whole shard; a bubble per batch so that goroutines and
	// timers of retired instances do not pile up
	sinkFile := tracePath
	for lo := 0; lo < len(edges); lo += batch {
		hi := lo + batch
		if hi > len(edges) {
			hi = len(edges)
		}
		synctest.Test(t, func(t *testing.T) {
			if sink == nil {
				s, err := vOpenSink(sinkFile)
				if err != nil {
					t.Fatal(err)
				}
				sink = s
				sink.exact = conc.exact
				sink.keep = func(l *vLine) bool { return recording }
			} else {
				verifSink = sink.hook
				verifAware = sink.hookAware
			}
			sink.epoch = time.Now() // every bubble has its own clock
			for i := lo; i < hi; i++ {
				e := edges[i]
				st.Edges++
				if overlap && !(e.Kind == "udpalive" || (e.Kind == "nodeop" && e.Op == "alive" && (e.Via == "direct" || e.Via == "merge"))) {
					st.Edges--
					continue
				}
				if overlap {
					// every callback an alive claim can reach is installed (the alive delegate vetoes only its own
					// metadata value, as in the configurations that have one)
					e.Cfg.AliveDelegate = true
				}
				var in *vInst
				why := ""
				if walk && cur != nil && e.Level > curLevel && e.Level-curLevel <= 3 && curCfg == e.Cfg {
					// the next step of the same behaviour (levels in between were ticks of the model's clock)
					for k := curLevel + 1; k < e.Level; k++ {
						time.Sleep(conc.tick)
					}
					in = cur
					st.Why["walk: continued"]++
				} else {
					if cur != nil {
						cur.retire()
						cur = nil
					}
					in = vNewInst(t, sink, conc, e.Cfg)
					why = in.build(e.World, e.Cfg)
					if why != "" {
						st.Unconstructible++
						st.Why[why]++
						in.retire()
						continue
					}
					names := make([]string, 0, len(e.World.Rec))
					for name := range e.World.Rec {
						names = append(names, name)
					}
					if diff := vSameWorld(e.World, in.project(names), conc); diff != "" {
						st.Mismatch++
						if st.FirstMismatch == "" {
							b, _ := json.Marshal(e)
							st.FirstMismatch = diff + " edge=" + string(b)
						}
						in.retire()
						continue
					}
				}
				sink.mu.Lock()
				sink.caseID = ids[i]
				sink.mu.Unlock()
				recording = true
				if overlap {
					why = in.actOverlapped(e, st)
				} else {
					why = in.act(e)
				}
				if epilogue && why == "" && e.Kind != "reap" && e.Claim.Node != "" && e.Claim.Node != conc.self {
					cl := e.Claim
					hi := cl.Inc
					if r, ok := e.World.Rec[cl.Node]; ok && r.Inc > hi {
						hi = r.Inc
					}
					addr := cl.Addr
					if _, ok := conc.addr[addr]; !ok || cl.Kind != "alive" {
						addr = "A1"
					}
					time.Sleep(3 * conc.tick)
					in.m.resetNodes()
					in.m.aliveNode(&alive{Incarnation: conc.incMap(hi + 1), Node: cl.Node, Addr: conc.addr[addr], Port: 7946,
						Meta: conc.meta["m1"], Vsn: []uint8{1, 5, 2, 0, 0, 0}}, nil, false)
					in.m.deadNode(&dead{Incarnation: conc.incMap(hi + 1), Node: cl.Node, From: "f9"})
				}
				recording = false
				if why != "" {
					st.ActFailed++
					st.Why["act: "+why]++
				} else {
					st.Replayed++
				}
				if walk && why == "" {
					cur, curCfg, curLevel = in, e.Cfg, e.Level
				} else {
					in.retire()
					cur = nil
				}
			}
			if cur != nil {
				cur.retire()
				cur = nil
			}
			synctest.Wait()
		})
	}
	if sink != nil {
		st.Lines = sink.lines
		if err := sink.Close(); err != nil {
			t.Fatal(err)
		}
	}
	b, _ := json.Marshal(st)
	if p := os.Getenv("VERIF_STATS"); p != "" {
		if err := os.WriteFile(p, b, 0o644); err != nil {
			t.Fatal(err)
		}
	}
	t.Logf("replay stats: %s", b)
}
