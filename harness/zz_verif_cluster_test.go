//go:build verif

package memberlist

// Multi-node simulations of real Memberlist instances over simnet, in virtual
// time (DESIGN.md §4.6, §5 C03 C04 C05).  A plan (JSON, from the check driver:
// seeded random plans and plans derived from TLC behaviours of the Cluster
// model) lists the nodes, the configuration and a timeline of operations and
// faults.  The hooks record every membership step; the driver adds lines for
// crashes, restarts, API calls, the end of the fault period and the end of the
// run.  TLC (spec/TraceCluster.tla) judges the recorded trace.

import (
	"bufio"
	"bytes"
	"encoding/json"
	"fmt"
	"io"
	"log"
	"net"
	"os"
	"path/filepath"
	"runtime"
	"sort"
	"strings"
	"sync"
	"testing"
	"testing/synctest"
	"time"
)

type vSimEvent struct {
	At    int64          `json:"at"` // ms from the start
	Kind  string         `json:"kind"`
	Node  string         `json:"node"`
	To    string         `json:"to"`     // join target
	Meta  string         `json:"meta"`   // update
	Group map[string]int `json:"groups"` // partition
	Loss  float64        `json:"loss"`
	Dup   float64        `json:"dup"`
	Cut   float64        `json:"cut"`
	SErr  float64        `json:"senderr"` // probability of a transient local send error
	Delay int64          `json:"delay"`   // ms: min delay
	Jit   int64          `json:"jitter"`  // ms
	Tmo   int64          `json:"timeout"`
	Count int            `json:"count"` // burst: number of user messages
	Host  bool           `json:"host"`  // crash: the whole host goes away (connection attempts time out instead of being refused)
}

type vSimPlan struct {
	Id             int         `json:"id"`
	Seed           int64       `json:"seed"`
	Nodes          []string    `json:"nodes"`
	Family         string      `json:"family"` // lan | local | fast
	Healthy        bool        `json:"healthy"`
	IndirectChecks int         `json:"indirectChecks"`
	NoTCP          bool        `json:"noTcp"`
	Compression    bool        `json:"compression"`
	Label          string      `json:"label"`
	Key            string      `json:"key"`
	Proto          int         `json:"proto"`
	Reclaim        int64       `json:"reclaim"`    // ms
	GossipDead     int64       `json:"gossipDead"` // ms; 0 = the family's value
	SlowMsg        int64       `json:"slowMsg"`    // ms the application takes per user message
	Ports          bool        `json:"ports"`      // every member listens on a port of its own
	Events         []vSimEvent `json:"events"`
	EndAt          int64       `json:"endAt"`
	Settle         int64       `json:"settle"`
}

type vSimNode struct {
	name  string
	ip    net.IP
	port  int
	m     *Memberlist
	mp    *Memberlist
	cell  **Memberlist
	tr    *vSimTransport
	md    *vMetaDelegate
	up    bool
	left  bool
	epoch int
	meta  string
}

type vSim struct {
	t     *testing.T
	s     *vSink
	net   *vNet
	plan  *vSimPlan
	nodes map[string]*vSimNode
	start time.Time
	sim   vSimCfg
	pend  int // API calls in flight
	// outbound confidentiality (plans with a key): every buffer handed to the network is opened
	sealMu   sync.Mutex
	sealed   int            // buffers that opened under the key with the label as associated data
	headers  int            // cleartext label headers written to streams
	unsealed int            // anything else
	sites    map[string]int // send sites (caller file:line>callee) the buffers came from
}

// vSendSites: the chain of call sites inside the package that led to this write
func vSendSites() []string {
	pcs := make([]uintptr, 40)
	n := runtime.Callers(3, pcs)
	fr := runtime.CallersFrames(pcs[:n])
	var out []string
	callee := ""
	for {
		f, more := fr.Next()
		base := filepath.Base(f.File)
		inPkg := strings.HasPrefix(f.Function, "github.com/hashicorp/memberlist.") && !strings.HasPrefix(base, "zz_verif") &&
			!strings.HasSuffix(base, "_test.go") && !strings.HasPrefix(base, "verif_")
		short := f.Function[strings.LastIndex(f.Function, ".")+1:]
		if inPkg && callee != "" {
			out = append(out, fmt.Sprintf("%s:%d>%s", base, f.Line, callee))
		}
		callee = short
		if !inPkg && len(out) > 0 {
			break
		}
		if !more {
			break
		}
	}
	return out
}

// sealTap judges one buffer the node handed to the network
func (v *vSim) sealTap(path string, from *vSimTransport, buf []byte) {
	key := []byte(v.plan.Key)
	sites := vSendSites()
	ok, header := false, false
	if path == "stream" && len(buf) > 0 && buf[0] == 244 {
		// the cleartext label header of a stream (written on its own by the initiator)
		lab, rest, fine := vSplitLabel(buf)
		header = fine && lab == v.plan.Label && len(rest) == 0
	}
	if !header {
		lab, body, fine := vSplitLabel(buf)
		if path == "stream" {
			// the label header is a write of its own: the message follows bare
			lab, body, fine = v.plan.Label, buf, true
		}
		if fine && lab == v.plan.Label {
			if path == "packet" {
				_, _, ok = vOpenPacket(body, key, v.plan.Label)
			} else {
				_, ok = vOpenStream(body, key, v.plan.Label)
			}
		}
	}
	v.sealMu.Lock()
	for _, s := range sites {
		v.sites[s]++
	}
	switch {
	case header:
		v.headers++
	case ok:
		v.sealed++
	default:
		v.unsealed++
		if v.unsealed <= 3 {
			l := v.line("Unsealed", from.name)
			l.Via = path
			l.Info = strings.Join(sites, " < ")
			l.Names = []string{fmt.Sprintf("len=%d first=%d canary=%v", len(buf), vFirst(buf), bytes.Contains(buf, []byte("m-")))}
			v.sealMu.Unlock()
			v.s.Emit(l)
			return
		}
	}
	v.sealMu.Unlock()
}

func vFirst(b []byte) int {
	if len(b) == 0 {
		return -1
	}
	return int(b[0])
}

func (v *vSim) conf(nd *vSimNode) *Config {
	p := v.plan
	var c *Config
	switch p.Family {
	case "local":
		c = DefaultLocalConfig()
	case "fast", "slowack":
		c = DefaultLANConfig()
		c.ProbeInterval = 200 * time.Millisecond
		c.ProbeTimeout = 100 * time.Millisecond
		if p.Family == "slowack" {
			c.ProbeTimeout = 300 * time.Millisecond
		}
		c.GossipInterval = 50 * time.Millisecond
		c.PushPullInterval = 5 * time.Second
		c.GossipToTheDeadTime = 5 * time.Second
		c.TCPTimeout = 2 * time.Second
	default:
		c = DefaultLANConfig()
	}
	if p.GossipDead > 0 {
		c.GossipToTheDeadTime = time.Duration(p.GossipDead) * time.Millisecond
	}
	c.Name = nd.name
	c.BindPort = nd.port
	c.AdvertisePort = nd.port
	c.Logger = log.New(io.Discard, "", 0)
	if os.Getenv("VERIF_SIMLOG") != "" {
		c.Logger = log.New(os.Stderr, nd.name+" ", 0)
	}
	c.IndirectChecks = p.IndirectChecks
	c.DisableTcpPings = p.NoTCP
	c.EnableCompression = p.Compression
	c.Label = p.Label
	if p.Key != "" {
		c.SecretKey = []byte(p.Key)
	}
	if p.Proto != 0 {
		c.ProtocolVersion = uint8(p.Proto)
	}
	c.DeadNodeReclaimTime = time.Duration(p.Reclaim) * time.Millisecond
	c.RequireNodeNames = false
	nd.tr = v.net.attach(nd.name, nd.ip, nd.port)
	c.Transport = nd.tr
	c.Delegate = nd.md
	// every instance (epoch) gets its own cell: a crashed instance that still drains its
	// queues must not report into the sink under the identity of its successor
	nd.cell = new(*Memberlist)
	c.Events = &vEventDelegate{s: v.s, m: nd.cell}
	c.Conflict = &vConflictDelegate{s: v.s, m: nd.cell}
	return c
}

func (v *vSim) startNode(name string) *vSimNode {
	nd, ok := v.nodes[name]
	if !ok {
		idx := len(v.nodes) + 1
		nd = &vSimNode{name: name, ip: net.IPv4(10, 0, byte(idx/250), byte(idx%250+1)).To4(), md: &vMetaDelegate{slow: time.Duration(v.plan.SlowMsg) * time.Millisecond}}
		nd.port = 7946
		if v.plan.Ports {
			nd.port = 7946 + idx
		}
		nd.meta = "m-" + name + "-0"
		nd.md.set([]byte(nd.meta))
		v.nodes[name] = nd
	} else {
		nd.epoch++
		nd.left = false
	}
	c := v.conf(nd)
	m, err := Create(c)
	if err != nil {
		v.t.Fatalf("Create(%s): %v", name, err)
	}
	nd.m, nd.mp, nd.up = m, m, true
	*nd.cell = m
	cfg := vCfg{Reclaim: c.DeadNodeReclaimTime.Milliseconds(), GossipDead: c.GossipToTheDeadTime.Milliseconds(),
		Mult: c.SuspicionMult, MaxMult: c.SuspicionMaxTimeoutMult, Interval: c.ProbeInterval.Milliseconds()}
	n := v.s.register(m, cfg, nil, "", nil)
	n.created = true
	if v.sim.ProbeInterval == 0 {
		v.sim = vSimCfg{N: len(v.plan.Nodes), ProbeInterval: c.ProbeInterval.Milliseconds(), ProbeTimeout: c.ProbeTimeout.Milliseconds(),
			AwMax: c.AwarenessMaxMultiplier, SuspMult: c.SuspicionMult, MaxMult: c.SuspicionMaxTimeoutMult,
			PushPull: c.PushPullInterval.Milliseconds(), GossipDead: c.GossipToTheDeadTime.Milliseconds(),
			TCPTimeout: c.TCPTimeout.Milliseconds(), Healthy: v.plan.Healthy, Settle: v.plan.Settle}
		for _, e := range v.plan.Events {
			if e.Kind == "faults" && e.Delay+e.Jit > v.sim.MaxDelay {
				v.sim.MaxDelay = e.Delay + e.Jit
			}
		}
	}
	l := vBlankLine("Init")
	l.N = name
	l.Members = v.view(nd)
	l.Cfg = cfg
	l.Created = true
	l.Sim = v.sim
	v.s.Emit(l)
	return nd
}

func (v *vSim) view(nd *vSimNode) []vMember {
	out := []vMember{}
	for _, x := range nd.m.Members() {
		out = append(out, vMember{Name: x.Name, Addr: net.IP(x.Addr).String(), Port: int(x.Port), Meta: string(x.Meta)})
	}
	sort.Slice(out, func(i, j int) bool { return out[i].Name < out[j].Name })
	return out
}

func (v *vSim) live() []string {
	var out []string
	for name, nd := range v.nodes {
		if nd.up && !nd.left {
			out = append(out, name)
		}
	}
	sort.Strings(out)
	return out
}

func (v *vSim) views() []vView {
	out := []vView{}
	for _, name := range v.live() {
		out = append(out, vView{N: name, Members: v.view(v.nodes[name])})
	}
	return out
}

func (v *vSim) line(ev, node string) *vLine {
	l := vBlankLine(ev)
	l.N = node
	l.Node = node
	l.Sim = v.sim
	return l
}

func (v *vSim) api(nd *vSimNode, call string, f func() error) {
	v.pend++
	l := v.line("ApiCall", nd.name)
	l.Call = call
	v.s.Emit(l)
	go func() {
		res := "ok"
		func() {
			defer func() {
				if p := recover(); p != nil {
					res = fmt.Sprintf("panic: %v", p)
				}
			}()
			if err := f(); err != nil {
				res = "error: " + err.Error()
			}
		}()
		l := v.line("ApiReturn", nd.name)
		l.Call, l.Res = call, res
		l.Views = v.viewsLocked()
		v.s.Emit(l)
		v.s.mu.Lock()
		v.pend--
		v.s.mu.Unlock()
	}()
}

func (v *vSim) viewsLocked() []vView { return []vView{} }

func (v *vSim) exec(e vSimEvent) {
	nd := v.nodes[e.Node]
	switch e.Kind {
	case "start":
		v.startNode(e.Node)
	case "join":
		to := v.nodes[e.To]
		if nd == nil || !nd.up || to == nil {
			return
		}
		addr := fmt.Sprintf("%s/%s:%d", to.name, to.ip.String(), to.port)
		m := nd.m
		v.api(nd, "Join", func() error { _, err := m.Join([]string{addr}); return err })
	case "crash":
		if nd == nil || !nd.up {
			return
		}
		l := v.line("Crash", e.Node)
		for _, o := range v.live() {
			if o == e.Node {
				continue
			}
			for _, mm := range v.nodes[o].m.Members() {
				if mm.Name == e.Node {
					l.Names = append(l.Names, o)
				}
			}
		}
		if e.Host {
			v.net.crashHost(e.Node)
		} else {
			v.net.crash(e.Node)
		}
		nd.up = false
		v.s.Emit(l)
		v.s.unregister(nd.m)
		_ = nd.m.Shutdown()
	case "restart":
		if nd == nil || nd.up {
			return
		}
		l := v.line("Restart", e.Node)
		v.s.Emit(l)
		v.startNode(e.Node)
	case "leave":
		if nd == nil || !nd.up || nd.left {
			return
		}
		nd.left = true
		m := nd.m
		tmo := time.Duration(e.Tmo) * time.Millisecond
		l := v.line("LeaveCall", e.Node)
		l.Names = v.live()
		v.s.Emit(l)
		v.api(nd, "Leave", func() error { return m.Leave(tmo) })
	case "depart":
		// the process of a member that left gracefully goes away
		if nd == nil || !nd.up || !nd.left {
			return
		}
		v.s.Emit(v.line("Depart", e.Node))
		v.net.crash(e.Node)
		nd.up = false
		v.s.unregister(nd.m)
		_ = nd.m.Shutdown()
	case "burst":
		// user messages (best effort) from one member to another
		to := v.nodes[e.To]
		if nd == nil || !nd.up || nd.left || to == nil || !to.up {
			return
		}
		var dst *Node
		for _, mm := range nd.m.Members() {
			if mm.Name == e.To {
				dst = mm
			}
		}
		if dst == nil {
			return
		}
		for i := 0; i < e.Count; i++ {
			_ = nd.m.SendBestEffort(dst, []byte(fmt.Sprintf("user-%s-%d", e.Node, i)))
		}
	case "update":
		if nd == nil || !nd.up || nd.left {
			return
		}
		nd.meta = e.Meta
		nd.md.set([]byte(e.Meta))
		m := nd.m
		tmo := time.Duration(e.Tmo) * time.Millisecond
		v.api(nd, "UpdateNode", func() error { return m.UpdateNode(tmo) })
	case "partition":
		v.net.partition(e.Group)
	case "heal":
		v.net.partition(map[string]int{})
	case "faults":
		v.net.setFaults(vNetFaults{Loss: e.Loss, Dup: e.Dup, CutProb: e.Cut, SendErr: e.SErr, MinDelay: time.Duration(e.Delay) * time.Millisecond,
			Jitter: time.Duration(e.Jit) * time.Millisecond})
	case "stop":
		l := v.line("StopFaults", "")
		l.Names = v.live()
		l.Views = v.views()
		v.s.Emit(l)
	}
}

func (v *vSim) run() {
	sort.SliceStable(v.plan.Events, func(i, j int) bool { return v.plan.Events[i].At < v.plan.Events[j].At })
	v.sites = map[string]int{}
	if v.plan.Key != "" {
		v.net.mu.Lock()
		v.net.tapPacket = func(from, to *vSimTransport, buf []byte, fate string) { v.sealTap("packet", from, buf) }
		v.net.tapStream = func(from, to *vSimTransport, dir string, buf []byte) { v.sealTap("stream", from, buf) }
		v.net.mu.Unlock()
	}
	v.start = time.Now()
	v.s.epoch = v.start
	init := v.line("SimInit", "")
	init.Names = append([]string{}, v.plan.Nodes...)
	init.Info = fmt.Sprintf("plan=%d family=%s", v.plan.Id, v.plan.Family)
	v.s.Emit(init)
	for _, e := range v.plan.Events {
		// an odd number of microseconds keeps driver actions off every timer instant
		target := v.start.Add(time.Duration(e.At)*time.Millisecond + 137*time.Microsecond)
		if d := time.Until(target); d > 0 {
			time.Sleep(d)
		}
		v.exec(e)
	}
	if d := time.Until(v.start.Add(time.Duration(v.plan.EndAt) * time.Millisecond)); d > 0 {
		time.Sleep(d)
	}
	end := v.line("End", "")
	end.Names = v.live()
	end.Views = v.views()
	// owners' latest metadata
	for _, name := range v.live() {
		end.Members = append(end.Members, vMember{Name: name, Meta: v.nodes[name].meta})
	}
	end.Sim = v.sim
	if v.plan.Key != "" {
		v.sealMu.Lock()
		st := v.line("SealStat", "")
		st.NodeOps, st.NnPre, st.NnPost = v.sealed, v.headers, v.unsealed
		for k := range v.sites {
			st.Names = append(st.Names, k)
		}
		sort.Strings(st.Names)
		v.sealMu.Unlock()
		v.s.Emit(st)
	}
	v.s.Emit(end)
	for _, nd := range v.nodes {
		if nd.up {
			v.s.unregister(nd.m)
			_ = nd.m.Shutdown()
			v.net.crash(nd.name)
		}
	}
	// let every goroutine (API calls waiting on timeouts, probes, streams) finish
	time.Sleep(2 * time.Minute)
	synctest.Wait()
}

func TestVerifClusterSim(t *testing.T) {
	plans, trace := os.Getenv("VERIF_PLANS"), os.Getenv("VERIF_TRACE")
	if plans == "" || trace == "" {
		t.Skip("VERIF_PLANS / VERIF_TRACE not set")
	}
	shard, nshard := 0, 1
	if v := os.Getenv("VERIF_SHARD"); v != "" {
		fmt.Sscanf(v, "%d/%d", &shard, &nshard)
	}
	f, err := os.Open(plans)
	if err != nil {
		t.Fatal(err)
	}
	defer f.Close()
	sc := bufio.NewScanner(f)
	sc.Buffer(make([]byte, 1<<20), 1<<24)
	idx := 0
	var sink *vSink
	for sc.Scan() {
		idx++
		if (idx-1)%nshard != shard {
			continue
		}
		var p vSimPlan
		if err := json.Unmarshal(sc.Bytes(), &p); err != nil {
			t.Fatalf("plan %d: %v", idx, err)
		}
		if p.Id == 0 {
			p.Id = idx
		}
		synctest.Test(t, func(t *testing.T) {
			if sink == nil {
				s, err := vOpenSink(trace)
				if err != nil {
					t.Fatal(err)
				}
				sink = s
			} else {
				verifSink = sink.hook
				verifAware = sink.hookAware
			}
			sink.mu.Lock()
			sink.caseID = p.Id
			sink.mu.Unlock()
			v := &vSim{t: t, s: sink, net: vNewNet(p.Seed), plan: &p, nodes: map[string]*vSimNode{}}
			v.run()
		})
	}
	if sink != nil {
		if err := sink.Close(); err != nil {
			t.Fatal(err)
		}
	}
}
