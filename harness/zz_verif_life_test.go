//go:build verif

package memberlist

// Lifecycle schedules forced onto a real node (DESIGN.md §5 C20, §4.5).
//
// Every schedule printed by TLC from spec/Lifecycle.tla is a sequence of steps:
// a whole public call, a background event (an accusation about the node, the
// peer crashing, the reaping of aged-out records), or a call HELD at one of its
// gates (lock-free points between its critical sections) while another step
// runs to completion.  The node under test and one peer are real Memberlist
// instances with their tickers running, over simnet, in virtual time.  Every
// call is wrapped in recover; recorded are its result, how long it took, whether
// the thing it waited for could ever happen, what the node sent after Shutdown
// returned, and whether its background goroutines ended.

import (
	"bufio"
	"encoding/json"
	"fmt"
	"io"
	"log"
	"net"
	"os"
	"sync"
	"sync/atomic"
	"testing"
	"testing/synctest"
	"time"
)

type vLItem struct {
	Kind     string `json:"kind"` // call | held
	Step     string `json:"step"`
	Call     string `json:"call"`
	Gate     string `json:"gate"`
	Inner    string `json:"inner"`
	MayPanic bool   `json:"mayPanic"`
	Stage    string `json:"stage"`
}

type vLSched struct {
	Sched []vLItem `json:"sched"`
	Final string   `json:"final"`
}

type vLRes struct {
	What          string `json:"what"` // the call or background step
	Role          string `json:"role"` // whole | held | inner
	Gate          string `json:"gate"`
	Res           string `json:"res"` // ok | error | panic | blocked | n/a
	Err           string `json:"err"`
	TookMs        int64  `json:"tookMs"`
	TimeoutMs     int64  `json:"timeoutMs"`
	MayPanic      bool   `json:"mayPanic"`
	Parked        bool   `json:"parked"`        // held calls: did the call reach the gate
	ParkedMs      int64  `json:"parkedMs"`      // held calls: time spent waiting at the gate
	Waited        bool   `json:"waited"`        // the call timed out waiting for its broadcast
	Signalable    bool   `json:"signalable"`    // a broadcast carrying the call's notification was queued during the call
	AfterShutdown bool   `json:"afterShutdown"` // Shutdown had returned before the call started
	Repeat        bool   `json:"repeat"`        // the same call had already returned ok before
	NodeOps       int    `json:"nodeOps"`       // membership steps on the node during the call
	Stage         string `json:"stage"`
	SelfAfter     string `json:"selfAfter"`  // the node's own record right after the call returned
	PeerAlive     bool   `json:"peerAlive"`  // the node listed a live peer when the call started
	Leaving       bool   `json:"leaving"`    // the leave flag was set when the call returned
	PeerListed    bool   `json:"peerListed"` // when the call started the node listed another member as alive or suspect (looked up by the harness, not by the node's own anyAlive)
	SentBefore    bool   `json:"sentBefore"` // the node's own departure had been handed out for packing into a packet when the call returned
}

type vLLine struct {
	Ev        string  `json:"ev"`
	Case      int     `json:"case"`
	Results   []vLRes `json:"results"`
	Final     string  `json:"final"`     // stage expected by the model
	SelfState string  `json:"selfState"` // what the node holds about itself at the end
	LeaveFlag bool    `json:"leaveFlag"`
	LateSends int     `json:"lateSends"` // send attempts later than one scaled probe interval after Shutdown returned
	GoLeft    int     `json:"goLeft"`    // long-running goroutines that had not ended by then
	GoStarted int     `json:"goStarted"`
}

type vLCount struct{ notify, nodeOps int }

type vLife struct {
	t              *testing.T
	s              *vSink
	nw             *vNet
	N, P           *Memberlist
	trN            *vSimTransport
	md             *vMetaDelegate
	mu             sync.Mutex
	gateWant       string
	parked         chan struct{}
	release        chan struct{}
	byG            map[int64]*vLCount // per API-call goroutine: notifications queued, membership steps
	goBegin, goEnd int
	shutAt         time.Time
	shut           bool
	sends          []time.Time
	okBefore       map[string]bool
	bound          time.Duration
	parkedFor      time.Duration
	departPacked   int // times the node's own departure was handed out by getBroadcasts
}

func vLifeConf(name string, tr *vSimTransport, d Delegate) *Config {
	c := DefaultLANConfig()
	c.Name = name
	c.BindPort, c.AdvertisePort = 7946, 7946
	c.Logger = log.New(io.Discard, "", 0)
	if os.Getenv("VERIF_SIMLOG") != "" {
		c.Logger = log.New(os.Stderr, name+" ", 0)
	}
	c.ProbeInterval = 200 * time.Millisecond
	c.ProbeTimeout = 100 * time.Millisecond
	c.GossipInterval = 50 * time.Millisecond
	c.PushPullInterval = 5 * time.Second
	c.GossipToTheDeadTime = 3 * time.Second
	c.TCPTimeout = 2 * time.Second
	c.Transport = tr
	c.Delegate = d
	return c
}

func (v *vLife) call(what string, timeout time.Duration) (res vLRes) {
	res.What, res.Res = what, "n/a"
	res.TimeoutMs = timeout.Milliseconds()
	gid := vGoid()
	cnt := &vLCount{}
	v.mu.Lock()
	v.byG[gid] = cnt
	v.mu.Unlock()
	defer func() {
		v.mu.Lock()
		res.Signalable = cnt.notify > 0
		res.NodeOps = cnt.nodeOps
		v.mu.Unlock()
	}()
	N := v.N
	peer := &Node{Name: "peer", Addr: net.IPv4(10, 0, 0, 2).To4(), Port: 7946}
	var err error
	defer func() {
		if p := recover(); p != nil {
			res.Res = "panic"
			res.Err = fmt.Sprint(p)
			if len(res.Err) > 100 {
				res.Err = res.Err[:100]
			}
		}
	}()
	switch what {
	case "Join":
		_, err = N.Join([]string{"peer/10.0.0.2:7946"})
	case "Leave":
		err = N.Leave(timeout)
	case "Shutdown":
		err = N.Shutdown()
		v.mu.Lock()
		if !v.shut {
			v.shut, v.shutAt = true, time.Now()
		}
		v.mu.Unlock()
	case "UpdateNode":
		v.md.set([]byte(fmt.Sprintf("meta-%d", time.Now().UnixNano()%1000)))
		err = N.UpdateNode(timeout)
	case "LocalNode":
		_ = N.LocalNode().Name
	case "Members":
		_ = len(N.Members())
	case "NumMembers":
		_ = N.NumMembers()
	case "SendBestEffort":
		err = N.SendBestEffort(peer, []byte("hello"))
	case "SendReliable":
		err = N.SendReliable(peer, []byte("hello"))
	case "Ping":
		_, err = N.Ping("peer", &net.UDPAddr{IP: peer.Addr, Port: 7946})
	case "GetHealthScore":
		_ = N.GetHealthScore()
	}
	res.Res = "ok"
	if err != nil {
		res.Res = "error"
		res.Err = err.Error()
		if len(res.Err) > 100 {
			res.Err = res.Err[:100]
		}
	}
	return res
}

// run executes a call in its own goroutine and waits (virtual time) until it returns
func (v *vLife) run(what string, role string, item vLItem) vLRes {
	timeout := 1500 * time.Millisecond
	v.mu.Lock()
	after := v.shut
	rep := v.okBefore[what]
	v.mu.Unlock()
	start := time.Now()
	peerAlive := v.N.anyAlive()
	peerListed := false
	v.N.nodeLock.RLock()
	for _, n := range v.N.nodes {
		if n.Name != "node" && (n.State == StateAlive || n.State == StateSuspect) {
			peerListed = true
		}
	}
	v.N.nodeLock.RUnlock()
	done := make(chan vLRes, 1)
	go func() { done <- v.call(what, timeout) }()
	var res vLRes
	select {
	case res = <-done:
	case <-time.After(60 * time.Second):
		res = vLRes{What: what, Res: "blocked", TimeoutMs: timeout.Milliseconds()}
		// release a Leave that waits on its channel so that the bubble can end
		select {
		case v.N.leaveBroadcast <- struct{}{}:
		default:
		}
		select {
		case res2 := <-done:
			_ = res2
		case <-time.After(5 * time.Second):
		}
	}
	res.Role, res.TookMs = role, time.Since(start).Milliseconds()
	res.PeerAlive = peerAlive
	res.PeerListed = peerListed
	v.mu.Lock()
	res.SentBefore = v.departPacked > 0
	v.mu.Unlock()
	res.Leaving = v.N.hasLeft()
	res.SelfAfter = "absent"
	v.N.nodeLock.RLock()
	if st, ok := v.N.nodeMap["node"]; ok {
		res.SelfAfter = vStateName(st.State)
	}
	v.N.nodeLock.RUnlock()
	res.MayPanic, res.Stage, res.AfterShutdown, res.Repeat = item.MayPanic, item.Stage, after, rep
	v.mu.Lock()
	if res.Res == "ok" {
		v.okBefore[what] = true
	}
	v.mu.Unlock()
	res.Waited = res.Res == "error" && (what == "Leave" || what == "UpdateNode") && res.TookMs >= timeout.Milliseconds()
	// (for a held call the time at the gate is subtracted by the judge)
	return res
}

func (v *vLife) background(what string) vLRes {
	res := vLRes{What: what, Role: "whole", Res: "n/a"}
	switch what {
	case "Accuse":
		var inc uint32
		v.N.nodeLock.RLock()
		if st, ok := v.N.nodeMap["node"]; ok {
			inc = st.Incarnation
		}
		v.N.nodeLock.RUnlock()
		b, _ := encode(suspectMsg, &suspect{Incarnation: inc, Node: "node", From: "peer"}, false)
		select {
		case v.trN.packetCh <- &Packet{Buf: b.Bytes(), From: &net.UDPAddr{IP: net.IPv4(10, 0, 0, 2), Port: 7946}, Timestamp: time.Now()}:
		default:
		}
		time.Sleep(30 * time.Millisecond)
	case "SuspectPeer":
		// a third party's suspicion about the (healthy) peer reaches the node: until the peer's refutation arrives
		// (a gossip round trip) the node lists its only peer as suspect; the next step starts inside that window
		var inc uint32
		v.N.nodeLock.RLock()
		if st, ok := v.N.nodeMap["peer"]; ok {
			inc = st.Incarnation
		}
		v.N.nodeLock.RUnlock()
		b, _ := encode(suspectMsg, &suspect{Incarnation: inc, Node: "peer", From: "quux"}, false)
		select {
		case v.trN.packetCh <- &Packet{Buf: b.Bytes(), From: &net.UDPAddr{IP: net.IPv4(10, 0, 0, 2), Port: 7946}, Timestamp: time.Now()}:
		default:
		}
	case "PeerCrash":
		v.nw.crash("peer")
		_ = v.P.Shutdown()
		time.Sleep(10 * time.Millisecond)
	case "Reap":
		time.Sleep(3*time.Second + 800*time.Millisecond)
		v.N.resetNodes()
	case "Degrade":
		v.N.awareness.ApplyDelta(3)
	}
	synctest.Wait()
	return res
}

func (v *vLife) step(what string, role string, item vLItem) vLRes {
	if what == "Accuse" || what == "PeerCrash" || what == "Reap" || what == "Degrade" || what == "SuspectPeer" {
		r := v.background(what)
		r.Role, r.Stage = role, item.Stage
		return r
	}
	return v.run(what, role, item)
}

func vRunLife(t *testing.T, id int, sc vLSched) (l vLLine) {
	l.Ev, l.Case, l.Final = "LifeCase", id, sc.Final
	l.Results = []vLRes{}
	s, err := vOpenSink("")
	if err != nil {
		t.Fatal(err)
	}
	v := &vLife{t: t, s: s, nw: vNewNet(int64(id)), okBefore: map[string]bool{}, md: &vMetaDelegate{}, byG: map[int64]*vLCount{}}
	v.md.set([]byte("meta-0"))
	v.trN = v.nw.attach("node", net.IPv4(10, 0, 0, 1).To4(), 7946)
	trP := v.nw.attach("peer", net.IPv4(10, 0, 0, 2).To4(), 7946)
	v.nw.setFaults(vNetFaults{MinDelay: time.Millisecond, Jitter: 3 * time.Millisecond})
	// hooks: notifications queued, membership steps, goroutines, sends
	inner := s.hook
	verifSink = func(m *Memberlist, ev string, kv ...any) {
		if m.config.Name == "node" {
			gid := vGoid()
			v.mu.Lock()
			c := v.byG[gid]
			switch ev {
			case "bcast":
				if kv[2].(bool) && c != nil {
					c.notify++
				}
			case "alive.end", "suspect.end", "dead.end":
				if c != nil {
					c.nodeOps++
				}
			case "packed":
				if bufs, ok := kv[2].([][]byte); ok {
					for _, b := range bufs {
						if len(b) > 1 && messageType(b[0]) == deadMsg {
							var d dead
							if decode(b[1:], &d) == nil && d.Node == "node" && d.From == "node" {
								v.departPacked++
							}
						}
					}
				}
			case "go.begin":
				v.goBegin++
			case "go.end":
				v.goEnd++
			}
			v.mu.Unlock()
		}
		inner(m, ev, kv...)
	}
	verifGate = func(m *Memberlist, point string) {
		v.mu.Lock()
		want := v.gateWant
		parked, release := v.parked, v.release
		if m != v.N || point != want || parked == nil {
			v.mu.Unlock()
			return
		}
		v.gateWant = ""
		v.mu.Unlock()
		close(parked)
		t0 := time.Now()
		<-release
		v.mu.Lock()
		v.parkedFor = time.Since(t0)
		v.mu.Unlock()
	}
	v.nw.mu.Lock()
	v.nw.tapPacket = func(from, to *vSimTransport, buf []byte, fate string) {
		if from == v.trN {
			gid := vGoid()
			v.mu.Lock()
			if v.byG[gid] == nil { // not a send made by an API call the schedule issued
				v.sends = append(v.sends, time.Now())
			}
			v.mu.Unlock()
		}
	}
	v.nw.tapStream = func(from, to *vSimTransport, dir string, buf []byte) {
		if from == v.trN {
			gid := vGoid()
			v.mu.Lock()
			if v.byG[gid] == nil {
				v.sends = append(v.sends, time.Now())
			}
			v.mu.Unlock()
		}
	}
	v.nw.mu.Unlock()

	cp := vLifeConf("peer", trP, &vMetaDelegate{})
	P, err := Create(cp)
	if err != nil {
		t.Fatal(err)
	}
	v.P = P
	cn := vLifeConf("node", v.trN, v.md)
	v.bound = time.Duration(cn.AwarenessMaxMultiplier) * cn.ProbeInterval
	N, err := Create(cn)
	if err != nil {
		t.Fatal(err)
	}
	v.N = N
	s.register(N, vCfg{Mult: cn.SuspicionMult, MaxMult: cn.SuspicionMaxTimeoutMult, Interval: cn.ProbeInterval.Milliseconds()}, nil, "", nil)

	for _, it := range sc.Sched {
		if it.Kind == "call" {
			l.Results = append(l.Results, v.step(it.Step, "whole", it))
			continue
		}
		// a call held at a gate while another step runs
		v.mu.Lock()
		v.gateWant = it.Gate
		v.parked, v.release = make(chan struct{}), make(chan struct{})
		parked, release := v.parked, v.release
		v.mu.Unlock()
		heldDone := make(chan vLRes, 1)
		go func() { heldDone <- v.run(it.Call, "held", it) }()
		reached := false
		select {
		case <-parked:
			reached = true
		case r := <-heldDone:
			// the call finished without reaching the gate
			r.Gate = it.Gate
			l.Results = append(l.Results, r)
			heldDone = nil
		case <-time.After(70 * time.Second):
		}
		// Two calls of the same kind: the second normally blocks on the call's own lock until the
		// first is done.  A goroutine waiting for a mutex would stall the virtual clock, so the
		// harness looks at the lock: held - the second call is run after the first is released
		// (that is what the lock enforces); free - the second runs while the first is half way.
		lockHeld := false
		if reached && it.Inner == it.Call {
			switch it.Call {
			case "Shutdown":
				if v.N.shutdownLock.TryLock() {
					v.N.shutdownLock.Unlock()
				} else {
					lockHeld = true
				}
			case "Leave":
				if v.N.leaveLock.TryLock() {
					v.N.leaveLock.Unlock()
				} else {
					lockHeld = true
				}
			}
		}
		if !lockHeld {
			ri := v.step(it.Inner, "inner", it)
			ri.Gate = it.Gate
			l.Results = append(l.Results, ri)
			if reached && it.Inner == "Shutdown" && it.Call == "Shutdown" {
				// the second Shutdown has returned while the first is half way: whatever still runs
				// now must stop within the bound
				time.Sleep(v.bound + time.Second)
			}
		}
		v.mu.Lock()
		v.gateWant = ""
		v.mu.Unlock()
		close(release)
		if heldDone != nil {
			select {
			case r := <-heldDone:
				r.Gate, r.Parked = it.Gate, reached
				v.mu.Lock()
				r.ParkedMs = v.parkedFor.Milliseconds()
				v.parkedFor = 0
				v.mu.Unlock()
				l.Results = append(l.Results, r)
			case <-time.After(80 * time.Second):
				l.Results = append(l.Results, vLRes{What: it.Call, Role: "held", Gate: it.Gate, Res: "blocked", Parked: reached})
			}
		}
		if lockHeld {
			ri := v.step(it.Inner, "inner", it)
			ri.Gate = it.Gate
			l.Results = append(l.Results, ri)
		}
	}
	// end of the schedule: shut the node down if the schedule did not, then look at what continues
	v.mu.Lock()
	already := v.shut
	v.mu.Unlock()
	if !already {
		func() {
			defer func() { _ = recover() }()
			_ = N.Shutdown()
		}()
		v.mu.Lock()
		v.shut, v.shutAt = true, time.Now()
		v.mu.Unlock()
	}
	N.nodeLock.RLock()
	l.SelfState = "absent"
	if st, ok := N.nodeMap["node"]; ok {
		l.SelfState = vStateName(st.State)
	}
	N.nodeLock.RUnlock()
	l.LeaveFlag = N.hasLeft()
	time.Sleep(v.bound + 5*time.Second)
	synctest.Wait()
	v.mu.Lock()
	for _, ts := range v.sends {
		if ts.After(v.shutAt.Add(v.bound)) {
			l.LateSends++
		}
	}
	l.GoStarted = v.goBegin
	l.GoLeft = v.goBegin - v.goEnd
	v.mu.Unlock()
	s.unregister(N)
	v.nw.crash("peer")
	v.nw.crash("node")
	_ = P.Shutdown()
	verifGate = nil
	_ = s.Close()
	time.Sleep(30 * time.Second)
	synctest.Wait()
	return l
}

func TestVerifLifecycle(t *testing.T) {
	cases, trace := os.Getenv("VERIF_CASES"), os.Getenv("VERIF_TRACE")
	if cases == "" || trace == "" {
		t.Skip("VERIF_CASES / VERIF_TRACE not set")
	}
	shard, nshard := 0, 1
	if v := os.Getenv("VERIF_SHARD"); v != "" {
		fmt.Sscanf(v, "%d/%d", &shard, &nshard)
	}
	journal := os.Getenv("VERIF_JOURNAL")
	skipTo := 0
	if v := os.Getenv("VERIF_RESUME"); v != "" {
		fmt.Sscanf(v, "%d", &skipTo)
	}
	f, err := os.Open(cases)
	if err != nil {
		t.Fatal(err)
	}
	defer f.Close()
	out, err := os.OpenFile(trace, os.O_CREATE|os.O_WRONLY|os.O_APPEND, 0o644)
	if err != nil {
		t.Fatal(err)
	}
	defer out.Close()
	w := bufio.NewWriter(out)
	sc := bufio.NewScanner(f)
	sc.Buffer(make([]byte, 1<<20), 1<<24)
	// Watchdog in REAL time (started outside any bubble): a goroutine that waits for a mutex held by a goroutine
	// that will never run again is not "durably blocked" for synctest - virtual time stops and the process would sit
	// there until the test timeout.  No schedule takes more than a few real milliseconds; without progress for
	// 45 real seconds the process reports the schedule and exits.
	var progress atomic.Int64
	hang := 45 * time.Second
	if v := os.Getenv("VERIF_HANG_S"); v != "" {
		var n int
		fmt.Sscanf(v, "%d", &n)
		hang = time.Duration(n) * time.Second
	}
	go func() {
		last, since := int64(-1), time.Now()
		for {
			time.Sleep(time.Second)
			if p := progress.Load(); p != last {
				last, since = p, time.Now()
			} else if time.Since(since) > hang {
				fmt.Fprintf(os.Stderr, "verif: hang: no progress for %v of real time\n", hang)
				os.Exit(3)
			}
		}
	}()
	idx := 0
	for sc.Scan() {
		idx++
		progress.Add(1)
		if (idx-1)%nshard != shard || idx <= skipTo {
			continue
		}
		var s vLSched
		if err := json.Unmarshal(sc.Bytes(), &s); err != nil {
			t.Fatalf("schedule %d: %v", idx, err)
		}
		id := idx
		if journal != "" {
			_ = os.WriteFile(journal, []byte(fmt.Sprint(id)), 0o644)
		}
		synctest.Test(t, func(t *testing.T) {
			l := vRunLife(t, id, s)
			b, _ := json.Marshal(l)
			w.Write(b)
			w.WriteByte('\n')
			w.Flush()
		})
	}
}
