//go:build verif

package memberlist

// simnet: an in-process network for any number of real Memberlist instances
// (DESIGN.md §4.6).  It implements NodeAwareTransport.  Packets are queued with
// a delivery instant; a seeded fault plan decides per packet loss, duplication
// and delay, per time window partitions, per node crash (black hole).  Streams
// are in-memory pipes that can be cut.  Every buffer handed to the transport
// and every stream write passes a wire tap.  Everything runs under
// testing/synctest, so all of it is in virtual time.

import (
	"errors"
	"fmt"
	"math/rand"
	"net"
	"sync"
	"time"
)

type vNetFaults struct {
	Loss     float64       // probability a packet is dropped
	Dup      float64       // probability a packet is delivered twice
	MinDelay time.Duration // latency of every packet: MinDelay + U[0, Jitter)
	Jitter   time.Duration
	CutProb  float64 // probability that a stream is cut after a random number of bytes
	SendErr  float64 // probability that the transport refuses a packet with a transient local error (full socket buffer)
}

type vNet struct {
	mu     sync.Mutex
	rng    *rand.Rand
	byAddr map[string]*vSimTransport
	byName map[string]*vSimTransport
	faults vNetFaults
	groups map[string]int // partition group of a node name; nodes in different groups cannot talk
	// taps
	tapPacket func(from, to *vSimTransport, buf []byte, fate string)
	tapStream func(from, to *vSimTransport, dir string, buf []byte)
	stats     struct{ sent, lost, dup, blocked, dials, dialFail int }
	// streamHook lets a harness adjust both ends of a new stream (limits, counters)
	streamHook func(client, server *vConn)
}

func vNewNet(seed int64) *vNet {
	return &vNet{rng: rand.New(rand.NewSource(seed)), byAddr: map[string]*vSimTransport{}, byName: map[string]*vSimTransport{},
		groups: map[string]int{}}
}

type vSimTransport struct {
	net       *vNet
	name      string
	ip        net.IP
	port      int
	packetCh  chan *Packet
	streamCh  chan net.Conn
	down      bool // crashed or shut down: black hole
	gen       int
	failSends bool   // WriteToAddress returns a local (non-remote) error
	failTo    string // ... only for this destination (host:port)
	blackhole bool   // down because the whole host is gone: connection attempts are not refused, they go unanswered
}

// attach creates (or replaces, for a restart) the transport of a node
func (n *vNet) attach(name string, ip net.IP, port int) *vSimTransport {
	n.mu.Lock()
	defer n.mu.Unlock()
	t := &vSimTransport{net: n, name: name, ip: ip, port: port, packetCh: make(chan *Packet, 4096), streamCh: make(chan net.Conn, 64)}
	if old, ok := n.byName[name]; ok {
		t.gen = old.gen + 1
	}
	n.byAddr[t.addr()] = t
	n.byName[name] = t
	return t
}

func (t *vSimTransport) addr() string { return net.JoinHostPort(t.ip.String(), fmt.Sprint(t.port)) }

func (n *vNet) setFaults(f vNetFaults) { n.mu.Lock(); n.faults = f; n.mu.Unlock() }

func (n *vNet) partition(groups map[string]int) {
	n.mu.Lock()
	n.groups = groups
	n.mu.Unlock()
}

func (n *vNet) crash(name string) {
	n.mu.Lock()
	if t, ok := n.byName[name]; ok {
		t.down = true
	}
	n.mu.Unlock()
}

// crashHost: the machine is gone (power, cable): nothing answers at its address, not even with a refusal
func (n *vNet) crashHost(name string) {
	n.mu.Lock()
	if t, ok := n.byName[name]; ok {
		t.down, t.blackhole = true, true
	}
	n.mu.Unlock()
}

// must hold n.mu
func (n *vNet) reachable(a, b *vSimTransport) bool {
	if a.down || b.down {
		return false
	}
	return n.groups[a.name] == n.groups[b.name]
}

func (n *vNet) lookup(a Address) *vSimTransport {
	if t, ok := n.byAddr[a.Addr]; ok {
		return t
	}
	return nil
}

// ---- Transport -------------------------------------------------------------

func (t *vSimTransport) FinalAdvertiseAddr(string, int) (net.IP, int, error) {
	return t.ip, t.port, nil
}

func (t *vSimTransport) WriteTo(b []byte, addr string) (time.Time, error) {
	return t.WriteToAddress(b, Address{Addr: addr})
}

func (t *vSimTransport) WriteToAddress(b []byte, a Address) (time.Time, error) {
	n := t.net
	if t.failSends || (t.failTo != "" && t.failTo == a.Addr) {
		// (the buffer was handed to the transport all the same: the tap sees it)
		n.mu.Lock()
		tap := n.tapPacket
		n.mu.Unlock()
		if tap != nil {
			tap(t, nil, append([]byte(nil), b...), "send-error")
		}
		return time.Time{}, errors.New("simnet: no route to host (local send failure)")
	}
	now := time.Now()
	buf := append([]byte(nil), b...)
	n.mu.Lock()
	if n.faults.SendErr > 0 && !t.down && n.rng.Float64() < n.faults.SendErr {
		// a transient local failure (the socket buffer is full): the caller gets a timeout-flavoured error, nothing leaves
		tap := n.tapPacket
		n.mu.Unlock()
		if tap != nil {
			tap(t, nil, buf, "send-error")
		}
		return time.Time{}, &net.OpError{Op: "write", Net: "udp", Err: errVTimeout{}}
	}
	dest := n.lookup(a)
	n.stats.sent++
	fate := "ok"
	var delays []time.Duration
	switch {
	case t.down:
		fate = "sender-down"
	case dest == nil:
		fate = "no-route"
	case !n.reachable(t, dest):
		fate = "blocked"
		n.stats.blocked++
	case n.rng.Float64() < n.faults.Loss:
		fate = "lost"
		n.stats.lost++
	default:
		d := n.faults.MinDelay
		if n.faults.Jitter > 0 {
			d += time.Duration(n.rng.Int63n(int64(n.faults.Jitter)))
		}
		delays = append(delays, d)
		if n.rng.Float64() < n.faults.Dup {
			d2 := n.faults.MinDelay
			if n.faults.Jitter > 0 {
				d2 += time.Duration(n.rng.Int63n(int64(n.faults.Jitter)))
			}
			delays = append(delays, d2)
			fate = "dup"
			n.stats.dup++
		}
	}
	tap := n.tapPacket
	n.mu.Unlock()
	if tap != nil {
		tap(t, dest, buf, fate)
	}
	from := &net.UDPAddr{IP: t.ip, Port: t.port}
	for _, d := range delays {
		d := d
		deliver := func() {
			n.mu.Lock()
			// in-flight packets of a sender that crashed meanwhile still arrive
			ok := !dest.down && n.groups[t.name] == n.groups[dest.name]
			n.mu.Unlock()
			if !ok {
				return
			}
			select {
			case dest.packetCh <- &Packet{Buf: append([]byte(nil), buf...), From: from, Timestamp: time.Now()}:
			default: // receive buffer full: dropped, like a socket buffer
			}
		}
		if d <= 0 {
			deliver()
		} else {
			time.AfterFunc(d, deliver)
		}
	}
	return now, nil
}

func (t *vSimTransport) PacketCh() <-chan *Packet  { return t.packetCh }
func (t *vSimTransport) StreamCh() <-chan net.Conn { return t.streamCh }

func (t *vSimTransport) DialTimeout(addr string, timeout time.Duration) (net.Conn, error) {
	return t.DialAddressTimeout(Address{Addr: addr}, timeout)
}

var errVRefused = errors.New("connection refused")

func (t *vSimTransport) DialAddressTimeout(a Address, timeout time.Duration) (net.Conn, error) {
	n := t.net
	n.mu.Lock()
	dest := n.lookup(a)
	n.stats.dials++
	refused := t.down || dest == nil || (dest.down && !dest.blackhole)
	blocked := !refused && (!n.reachable(t, dest) || dest.down)
	var cutAfter int = -1
	if !refused && !blocked && n.faults.CutProb > 0 && n.rng.Float64() < n.faults.CutProb {
		cutAfter = n.rng.Intn(600)
	}
	delay := n.faults.MinDelay
	if refused || blocked {
		n.stats.dialFail++
	}
	tap := n.tapStream
	n.mu.Unlock()
	if refused {
		return nil, &net.OpError{Op: "dial", Net: "tcp", Err: errVRefused}
	}
	if blocked {
		if timeout > 0 {
			time.Sleep(timeout)
		}
		return nil, &net.OpError{Op: "dial", Net: "tcp", Err: errVTimeout{}}
	}
	c1, c2 := net.Pipe()
	client := &vConn{Conn: c2, local: &net.TCPAddr{IP: t.ip, Port: 40000 + t.gen}, remote: &net.TCPAddr{IP: dest.ip, Port: dest.port},
		from: t, to: dest, dir: "c2s", tap: tap, cutAfter: cutAfter, delay: delay, limit: -1}
	server := &vConn{Conn: c1, local: &net.TCPAddr{IP: dest.ip, Port: dest.port}, remote: &net.TCPAddr{IP: t.ip, Port: 40000 + t.gen},
		from: dest, to: t, dir: "s2c", tap: tap, cutAfter: -1, delay: delay, limit: -1}
	if n.streamHook != nil {
		n.streamHook(client, server)
	}
	select {
	case dest.streamCh <- server:
	default:
		_ = c1.Close()
		_ = c2.Close()
		return nil, &net.OpError{Op: "dial", Net: "tcp", Err: errVRefused}
	}
	return client, nil
}

type errVTimeout struct{}

func (errVTimeout) Error() string   { return "i/o timeout" }
func (errVTimeout) Timeout() bool   { return true }
func (errVTimeout) Temporary() bool { return true }

func (t *vSimTransport) Shutdown() error {
	t.net.mu.Lock()
	t.down = true
	t.net.mu.Unlock()
	return nil
}

// vConn is one end of a simulated stream: taps writes, can be cut after a number of bytes
type vConn struct {
	net.Conn
	local, remote net.Addr
	from, to      *vSimTransport
	dir           string
	tap           func(from, to *vSimTransport, dir string, buf []byte)
	cutAfter      int
	written       int
	delay         time.Duration
	// in-transit loss: the writer believes everything was written, the reader gets
	// only the first `limit` bytes and then end-of-stream (limit < 0: off)
	limit     int
	forwarded int
	count     *int // total bytes the writer handed over (for measuring)
}

func (c *vConn) LocalAddr() net.Addr  { return c.local }
func (c *vConn) RemoteAddr() net.Addr { return c.remote }

func (c *vConn) Write(b []byte) (int, error) {
	if c.tap != nil {
		c.tap(c.from, c.to, c.dir, b)
	}
	if c.count != nil {
		*c.count += len(b)
	}
	if c.limit >= 0 {
		room := c.limit - c.forwarded
		if room > 0 {
			k := min(room, len(b))
			if _, err := c.Conn.Write(b[:k]); err != nil {
				return 0, err
			}
			c.forwarded += k
		}
		if c.forwarded >= c.limit {
			_ = c.Conn.Close()
		}
		return len(b), nil
	}
	if c.delay > 0 {
		time.Sleep(c.delay)
	}
	if c.cutAfter >= 0 && c.written+len(b) > c.cutAfter {
		k := c.cutAfter - c.written
		if k > 0 {
			c.Conn.Write(b[:k])
		}
		c.written += max(k, 0)
		c.Conn.Close()
		return max(k, 0), &net.OpError{Op: "write", Net: "tcp", Err: errors.New("connection reset by peer")}
	}
	n, err := c.Conn.Write(b)
	c.written += n
	return n, err
}
